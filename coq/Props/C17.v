(* Props/C17.v — GFA2 groups resolve to the paths and sets the specification defines.
   Model/Groups.v computes captured paths and induced sets on the reference semantics of the graph (Model/Graph.v); it
   is compared with captured_path, induced_segments_set and induced_edges_set of the implementation on every group of
   generated documents.  Proved for groups of any length and nesting depth.  Not proved: that the walk is the only one
   the items imply (decided per generated case by the independent walk search of the oracle); see the refuted
   statement for the recorded one-item-lookahead finding F52. *)
From Coq Require Import List String Ascii ZArith Bool.
From GfaV Require Import Base.Py Model.Codec Model.Graph Model.Groups Proofs.GroupsP.
Import ListNotations.
Open Scope string_scope.

(* a captured path is an alternating walk: it starts and ends with a segment and every edge on it joins, in the
   orientation with which it appears, the two segments next to it *)
Theorem C17_captured_path_is_a_walk : forall s g p,
  captured_path s g = Ok p -> p = [] \/ walk s (rev p).
Proof. exact captured_path_walk. Qed.
Print Assumptions C17_captured_path_is_a_walk.

Theorem C17_walks_alternate : forall s p, walk s p -> alternating p = true.
Proof. exact walk_alternating. Qed.
Print Assumptions C17_walks_alternate.

(* every segment and edge the group lists directly is on the path with the listed orientation *)
Theorem C17_listed_items_on_path : forall s g p, captured_path s g = Ok p ->
  forall it, In it (items_of g) -> on_path s it p.
Proof. exact listed_items_on_path. Qed.
Print Assumptions C17_listed_items_on_path.

(* the induced segments are exactly the segments mentioned directly or through edges, paths and nested sets *)
Theorem C17_induced_segments_exact : forall s fuel g segs,
  induced_segments fuel s g = Ok segs -> (forall x, In x segs <-> induces s g x) /\ NoDup segs.
Proof. exact induced_segments_exact. Qed.
Print Assumptions C17_induced_segments_exact.

(* the induced edges are exactly the edges both of whose segments are induced *)
Theorem C17_induced_edges_sound : forall s segs e, In e (induced_edges s segs) ->
  In e (lines s) /\ g_rk e = KE /\ In (seg1 e) segs /\ In (seg2 e) segs.
Proof. exact induced_edges_sound. Qed.
Print Assumptions C17_induced_edges_sound.

Theorem C17_induced_edges_complete : forall s segs e,
  In e (lines s) -> g_rk e = KE -> is_ok (edge_colls (g_pos e)) = true ->
  In (seg1 e) segs -> In (seg2 e) segs ->
  exists e', In e' (induced_edges s segs) /\ g_id e' = g_id e.
Proof. exact induced_edges_complete. Qed.
Print Assumptions C17_induced_edges_complete.

(* lines sharing an identifier: items concatenated in arrival order, tags united *)
Theorem C17_merge_items : forall old new m, merge_group old new = Ok m ->
  nth_s 1 (g_pos m) = (nth_s 1 (g_pos old) ++ " " ++ nth_s 1 (g_pos new))%string /\ nth_s 0 (g_pos m) = nth_s 0 (g_pos new).
Proof. exact merge_items. Qed.
Print Assumptions C17_merge_items.

Theorem C17_merge_tags : forall old new m, merge_group old new = Ok m ->
  forall t, In t (g_tags m) <-> In t (g_tags new) \/ (In t (g_tags old) /\ forall u, In u (g_tags new) -> tag_name u <> tag_name t).
Proof. exact merge_tags. Qed.
Print Assumptions C17_merge_tags.

(* non-vacuity: a concrete graph on which the hypotheses hold; implicit edge, supplied segments, nested reversed group *)
Definition demo : gfa :=
  let mk i k pos := mkGl i k pos [] false in
  mkGfa [mk 0 KS2 ["A"; "10"; "*"]; mk 1 KS2 ["B"; "10"; "*"]; mk 2 KS2 ["C"; "10"; "*"];
         mk 3 KE ["e1"; "A+"; "B+"; "7"; "10$"; "0"; "3"; "*"];
         mk 4 KE ["e2"; "B+"; "C-"; "7"; "10$"; "7"; "10$"; "*"];
         mk 5 KO ["o1"; "A+ B+"]; mk 6 KO ["o2"; "C+ o1-"]; mk 7 KO ["o3"; "e2+ A-"];
         mk 8 KU ["u1"; "o2 C"]] 9 "gfa2" 1.

Example C17_demo_paths :
  option_map (fun g => captured_path demo g) (find_named demo "o1") = Some (Ok [PS ("A", "+"); PE 3 "+"; PS ("B", "+")])
  /\ option_map (fun g => captured_path demo g) (find_named demo "o2")
     = Some (Ok [PS ("C", "+"); PE 4 "-"; PS ("B", "-"); PE 3 "-"; PS ("A", "-")])
  /\ option_map (fun g => captured_path demo g) (find_named demo "o3") = Some (Err (G EInconsistency))
  /\ option_map (fun g => rmap fst (induced_set demo g)) (find_named demo "u1") = Some (Ok ["C"; "B"; "A"]).
Proof. vm_compute. repeat split. Qed.

(* the recorded finding F52: the items e1- e1- A+ over the single edge e1 = A- C+ imply the walk A+ e1- C- e1- A+,
   but the direction chosen by looking at the second item alone starts from the wrong end *)
Definition f52 : gfa :=
  let mk i k pos := mkGl i k pos [] false in
  mkGfa [mk 0 KS2 ["A"; "10"; "*"]; mk 1 KS2 ["C"; "10"; "*"]; mk 2 KE ["e1"; "A-"; "C+"; "0"; "3"; "0"; "3"; "*"];
         mk 3 KO ["o1"; "e1- e1- A+"]] 4 "gfa2" 1.

Theorem C17_unique_walk_refuted :
  exists s g, In g (lines s) /\ captured_path s g = Err (G EInconsistency) /\
              walk s (rev [PS ("A", "+"); PE 2 "-"; PS ("C", "-"); PE 2 "-"; PS ("A", "+")]).
Proof.
  exists f52, (mkGl 3 KO ["o1"; "e1- e1- A+"] [] false). split; [vm_compute; tauto|]. split; [vm_compute; reflexivity|].
  cbn [rev app].
  assert (E : is_edge_of f52 (mkGl 2 KE ["e1"; "A-"; "C+"; "0"; "3"; "0"; "3"; "*"] [] false) 2) by (vm_compute; tauto).
  eapply walk_step; [|exact E|vm_compute; reflexivity].
  eapply walk_step; [|exact E|vm_compute; reflexivity]. constructor.
Qed.
Print Assumptions C17_unique_walk_refuted.
