(* Props/C12.v — "A link and its complement are one edge" (value level).
   Only statements, `exact <lemma>`, Print Assumptions and non-vacuity examples.
   k_cigar_complement, k_cigar_length_on_*, k_invert, k_from_end, k_to_end are REGENERATED from
   gfapy/alignment/cigar.py, symbol_invert.py and line/edge/common/from_to.py on every run. *)
From Coq Require Import List String Ascii ZArith Bool.
From GfaV Require Import Base.Py Gen.K_cigar Gen.K_fromto Model.Align Model.Link Proofs.CigarP Proofs.LinkP.
Import ListNotations.
From GfaV Require Import Model.Graph Proofs.GraphP Proofs.LinkGraphP.
Open Scope string_scope.

(* complement twice gives the CIGAR back, for every mix of M I D P = X H (the claim's codes) *)
Theorem C12_cigar_complement_involutive : forall c,
  cigar_codes_in involutive_codes c = true -> k_cigar_complement (k_cigar_complement c) = c.
Proof. exact complement_involutive. Qed.
Print Assumptions C12_cigar_complement_involutive.

(* the complement exchanges reference and query length — for every code, S and N included *)
Theorem C12_complement_exchanges_lengths : forall c,
  k_cigar_length_on_reference (k_cigar_complement c) = k_cigar_length_on_query c /\
  k_cigar_length_on_query (k_cigar_complement c) = k_cigar_length_on_reference c.
Proof. exact complement_exchanges_lengths. Qed.
Print Assumptions C12_complement_exchanges_lengths.

(* S and N are folded onto D and I: outside the claim, and indeed not involutive *)
Theorem C12_involution_refuted_for_S_N :
  exists c, k_cigar_complement (k_cigar_complement c) <> c.
Proof. exists [(1%Z, "S")]. vm_compute. discriminate. Qed.
Print Assumptions C12_involution_refuted_for_S_N.

Theorem C12_link_complement_involutive : forall l,
  link_wf l = true -> (forall t, l_ov l <> ATrace t) ->
  exists l', link_complement l = Ok l' /\ link_wf l' = true /\ link_complement l' = Ok l.
Proof. exact link_complement_involutive. Qed.
Print Assumptions C12_link_complement_involutive.

Theorem C12_is_complement_of_complement : forall l l',
  link_wf l = true -> (forall t, l_ov l <> ATrace t) -> link_complement l = Ok l' ->
  is_complement l l' = true /\ is_complement l' l = true /\ is_eql l l' = true.
Proof. exact is_complement_of_complement. Qed.
Print Assumptions C12_is_complement_of_complement.

Theorem C12_is_eql_symmetric : forall a b,
  aln_codes_in involutive_codes (l_ov a) = true -> aln_codes_in involutive_codes (l_ov b) = true ->
  aln_plain (l_ov a) = true -> aln_plain (l_ov b) = true ->
  is_eql a b = is_eql b a.
Proof. exact is_eql_sym. Qed.
Print Assumptions C12_is_eql_symmetric.

(* a link differing in anything but the complement symmetry is a different edge *)
Theorem C12_is_eql_characterised : forall a b,
  link_wf a = true -> link_wf b = true ->
  aln_plain (l_ov a) = true -> aln_plain (l_ov b) = true ->
  is_eql a b = true ->
  link_core_eqb b a = true \/ exists a', link_complement a = Ok a' /\ link_core_eqb b a' = true.
Proof. exact is_eql_characterised. Qed.
Print Assumptions C12_is_eql_characterised.

(* non-vacuity: an asymmetric link that meets every hypothesis above *)
Example C12_witness :
  let l := mkLink "A" "+" "B" "-" (ACigar [(2%Z, "M"); (1%Z, "D"); (3%Z, "M"); (4%Z, "H")]) in
  link_wf l = true /\ aln_plain (l_ov l) = true /\
  link_complement l = Ok (mkLink "B" "+" "A" "-" (ACigar [(4%Z, "H"); (3%Z, "M"); (1%Z, "I"); (2%Z, "M")])).
Proof. vm_compute. repeat split. Qed.


(* ---------- in the Gfa ---------- *)
(* adding the complement of a stored link adds nothing and raises nothing; a link that meets a stored link on its oriented
   pair without being its complement is refused as a duplicate *)
Theorem C12_adding_the_complement_adds_nothing : forall s l prev,
  g_rk l = KL -> duplicate_of s l = Some prev -> g_virtual prev = false ->
  is_complement (link_value l) (link_value prev) = true -> connect s l = Ok s.
Proof. exact complement_of_stored_link_adds_nothing. Qed.
Print Assumptions C12_adding_the_complement_adds_nothing.

Theorem C12_another_link_on_the_pair_is_refused : forall s l prev,
  g_rk l = KL -> duplicate_of s l = Some prev -> g_virtual prev = false ->
  is_complement (link_value l) (link_value prev) = false -> connect s l = Err (G ENotUnique).
Proof. exact other_link_on_a_stored_pair_is_refused. Qed.
Print Assumptions C12_another_link_on_the_pair_is_refused.

(* lookup by oriented segment pair: what it returns is a link of the Gfa compatible with the step, in direct or in
   complement form, and it misses no such link *)
Theorem C12_lookup_is_sound : forall s a b ov x,
  search_link s a b ov = Some x ->
  In x (lines s) /\ g_rk x = KL /\ is_compatible (link_value x) a b ov true = Ok true.
Proof. exact search_link_sound. Qed.
Print Assumptions C12_lookup_is_sound.

Theorem C12_lookup_is_complete : forall s a b ov x,
  In x (lines s) -> g_rk x = KL -> (nth_s 0 (g_pos x) = fst a \/ nth_s 2 (g_pos x) = fst a) ->
  is_compatible (link_value x) a b ov true = Ok true -> search_link s a b ov <> None.
Proof. exact search_link_complete. Qed.
Print Assumptions C12_lookup_is_complete.

Theorem C12_forwards_or_reversed : forall l a b ov,
  is_compatible l a b ov true = Ok true ->
  is_compatible_direct l a b ov = true \/ is_compatible_complement l a b ov = Ok true.
Proof. exact compatible_is_direct_or_complement. Qed.
Print Assumptions C12_forwards_or_reversed.
