(* Props/C19.v — a clone is an equal, detached and fully independent line.
   Model/Clone.v: field values as trees of objects with identities; Cloning.clone copies, renders or shares a value
   according to the if/elif chain of the implementation (clone_mode, compared with the behaviour observed on real
   lines for every combination of field class and value type met).  Proved for lines and edit sequences of any size:
   the clone is written like the original; it contains none of the original's objects provided no value of a
   mutable kind falls through to the sharing branch; hence no sequence of in-place edits and assignments made through
   one of the two changes the other. *)
From Coq Require Import List String Ascii ZArith Bool.
From GfaV Require Import Base.Py Model.Clone Proofs.CloneP.
Import ListNotations.
Open Scope string_scope.
Open Scope list_scope.

Theorem C19_clone_renders_equal : forall off l, render_line (clone off l) = render_line l.
Proof. exact clone_renders_equal. Qed.
Print Assumptions C19_clone_renders_equal.

Theorem C19_clone_shares_nothing : forall off l, bounded off l -> no_mutable_shared l ->
  forall x, In x (line_locs (clone off l)) -> ~ In x (line_locs l).
Proof. exact clone_separate. Qed.
Print Assumptions C19_clone_shares_nothing.

Theorem C19_edits_of_the_clone_leave_the_original : forall es o c, disjoint c o -> edits_via_clone o c es ->
  fst (run_clone_edits o c es) = o.
Proof. exact clone_edits_leave_original. Qed.
Print Assumptions C19_edits_of_the_clone_leave_the_original.

Theorem C19_edits_of_the_original_leave_the_clone : forall es o c, disjoint o c -> edits_via_orig o c es ->
  snd (fold_left (fun w e => edit_world false e w) es (o, c)) = c.
Proof. exact original_edits_leave_clone. Qed.
Print Assumptions C19_edits_of_the_original_leave_the_clone.

(* the copy rule is the regenerated if/elif chain of Cloning.clone: every recognised kind of value with a mutable part
   (strings are included for completeness) is copied or rendered; only values outside these kinds are shared, and the
   heap walk of the oracle checks that none of those has a mutable part *)
Theorem C19_recognised_kinds_are_copied : forall r j k, In k [VStr; VList; VOriented; VFieldArray] -> clone_mode r j k <> Share.
Proof. exact recognised_kind_copied. Qed.
Print Assumptions C19_recognised_kinds_are_copied.

Theorem C19_recognised_line_not_shared : forall l,
  (forall f, In f l -> locs (f_val f) = [] \/ In (f_kind f) [VStr; VList; VOriented; VFieldArray]) -> no_mutable_shared l.
Proof. exact recognised_line_not_shared. Qed.
Print Assumptions C19_recognised_line_not_shared.

(* the clone gets its own table of tag datatypes and is built from the copied values (read from the source) *)
Theorem C19_clone_has_its_own_tables : Gen.K_clone.k_clone_copies_datatypes = true /\ Gen.K_clone.k_clone_built_from_copies = true.
Proof. split; reflexivity. Qed.
Print Assumptions C19_clone_has_its_own_tables.

(* the copy is constructed with the placeholder flag and the version of the original (read from the constructor call in
   the source): it is written like the original *)
Theorem C19_clone_keeps_kind_and_version :
  Gen.K_clone.k_clone_keeps_virtual = true /\ Gen.K_clone.k_clone_keeps_version = true.
Proof. split; reflexivity. Qed.
Print Assumptions C19_clone_keeps_kind_and_version.

(* non-vacuity: a path-like line with a list of oriented references, a list of CIGARs, a JSON tag and an integer tag *)
Definition demo : pline :=
  [mkField "segment_names" true false VList (Node 1 "list" [Node 2 "ol" [Leaf "A+"]; Node 3 "ol" [Leaf "B-"]]);
   mkField "overlaps" false false VList (Node 4 "list" [Node 5 "cigar" [Node 6 "op" [Leaf "3M"]]]);
   mkField "xx" false true VOtherMutable (Node 7 "dict" [Leaf "k"; Node 8 "list" [Leaf "1"]]);
   mkField "LN" false false VOtherImmutable (Leaf "10")].

Example C19_demo :
  bounded 100 demo /\ no_mutable_shared demo /\ disjoint (clone 100 demo) demo /\
  fst (run_clone_edits demo (clone 100 demo) [EWrite 106 "op" [Leaf "9D"]; ESet "LN" (Leaf "11"); EWrite 108 "list" []]) = demo /\
  snd (run_clone_edits demo (clone 100 demo) [EWrite 106 "op" [Leaf "9D"]]) <> clone 100 demo.
Proof.
  assert (B : bounded 100 demo) by (intros x Hx; cbn in Hx; repeat (destruct Hx as [<-|Hx]; [repeat constructor|]); destruct Hx).
  assert (N : no_mutable_shared demo).
  { intros f Hf. cbn in Hf. repeat (destruct Hf as [<-|Hf]; [cbn; try discriminate; reflexivity|]). destruct Hf. }
  split; [exact B|]. split; [exact N|]. split; [exact (clone_separate 100 demo B N)|].
  split; [vm_compute; reflexivity|vm_compute; discriminate].
Qed.

(* a sharing clone is not independent: were lists shared, an edit of the clone would reach the original *)
Theorem C19_shared_value_refuted :
  exists o c e, render_line c = render_line o /\ edit_via c [] e /\ fst (edit_world true e (o, c)) <> o.
Proof.
  exists [mkField "overlaps" false false VList (Node 4 "list" [Leaf "3M"])],
         [mkField "overlaps" false false VList (Node 4 "list" [Leaf "3M"])], (EWrite 4 "list" [Leaf "9D"]).
  split; [reflexivity|]. split; [split; [left; reflexivity|intros x []]|vm_compute; discriminate].
Qed.
Print Assumptions C19_shared_value_refuted.
