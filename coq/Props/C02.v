(* Props/C02.v — the reference graph stays closed under every history of additions and removals.
   Model/Graph.v is the reference semantics of the object graph (back-references DERIVED from the fields, so the
   mirror clause "every reference has exactly one back-reference and conversely" holds by construction in the model;
   the implementation's stored collections are compared with the derived ones after every operation of generated
   histories — harness/props/c02.py).  What is proved here is closure: every identifier mentioned by a line of the
   Gfa resolves to a line of the Gfa of the right kind, no line of the Gfa refers to a removed line, identities and
   identifiers are unique — in every state reached by any finite history, failed operations included. *)
From Coq Require Import List String Ascii ZArith Bool.
From GfaV Require Import Base.Py Model.Codec Model.Line Model.Graph Proofs.GraphP Proofs.RenameP.
Import ListNotations.
Open Scope string_scope.

Theorem C02_invariant_one_step : forall O s o s',
  Inv s -> op_guard2 O s o -> step O s o = Ok s' -> Inv s'.
Proof. exact step_inv. Qed.
Print Assumptions C02_invariant_one_step.

Theorem C02_invariant_every_reachable_state : forall O ops s,
  Inv s -> guards2_hold O s ops -> Inv (run_ops O s ops).
Proof. exact inv_reachable. Qed.
Print Assumptions C02_invariant_every_reachable_state.

Theorem C02_initial_state : forall v vl, Inv (init_gfa v vl).
Proof. exact inv_init. Qed.
Print Assumptions C02_initial_state.

(* renaming keeps the graph closed: with an identifier that is non-empty, not the placeholder and free of the list
   separators (what every validation level above 0 enforces) and a line that does not mention itself (F50) *)
Theorem C02_rename_keeps_the_invariant : forall s old new s',
  Inv s -> rename_guard s old new -> rename s old new = Ok s' -> Inv s'.
Proof. exact rename_inv. Qed.
Print Assumptions C02_rename_keeps_the_invariant.

Theorem C02_invariant_every_reachable_state_with_renames : forall O ops s,
  Inv s -> guards3_hold O s ops -> Inv (run_ops O s ops).
Proof. exact inv_reachable3. Qed.
Print Assumptions C02_invariant_every_reachable_state_with_renames.

(* non-vacuity of the rename theorem: the guard holds in a state with a link, a containment and a path over the renamed
   segment, the rename succeeds, and the text afterwards mentions only the new identifier *)
Example C02_rename_witness :
  let t := String tab EmptyString in
  let s := run_texts "gfa1" [OAdd ("S" ++ t ++ "A" ++ t ++ "*"); OAdd ("S" ++ t ++ "B" ++ t ++ "*");
                             OAdd ("L" ++ t ++ "A" ++ t ++ "+" ++ t ++ "B" ++ t ++ "-" ++ t ++ "*");
                             OAdd ("C" ++ t ++ "B" ++ t ++ "+" ++ t ++ "A" ++ t ++ "-" ++ t ++ "0" ++ t ++ "*");
                             OAdd ("P" ++ t ++ "p" ++ t ++ "A+,B-" ++ t ++ "*")] in
  rename_guard s "A" "N" /\
  match rename s "A" "N" with
  | Ok s' => closed_b s' = true /\ names_unique_b s' = true /\
             map gl_text (lines s') = ["S" ++ t ++ "B" ++ t ++ "*";
                                       "L" ++ t ++ "N" ++ t ++ "+" ++ t ++ "B" ++ t ++ "-" ++ t ++ "*";
                                       "C" ++ t ++ "B" ++ t ++ "+" ++ t ++ "N" ++ t ++ "-" ++ t ++ "0" ++ t ++ "*";
                                       "P" ++ t ++ "p" ++ t ++ "N+,B-" ++ t ++ "*";
                                       "S" ++ t ++ "N" ++ t ++ "*"]
  | Err _ => False
  end.
Proof.
  cbv zeta. split.
  - split; [reflexivity | split; [reflexivity|]]. intros x H. vm_compute in H. injection H as <-. intros m [].
  - vm_compute. repeat split.
Qed.

(* removal leaves no reference to a removed line: it removes exactly the dependency closure and what remains is closed *)
Theorem C02_removal_closed : forall s x s',
  ids_ok s -> closed s -> dep_guard s -> disconnect s x = Ok s' -> ids_ok s' /\ closed s'.
Proof. exact disconnect_closed. Qed.
Print Assumptions C02_removal_closed.

(* the guards are necessary — known findings exhibited on the model, which follows the implementation there:
   F28: a gap listed in a set is not a dependant; removing the gap leaves the set pointing at it *)
Theorem C02_gap_in_set_refuted :
  exists ops, closed_b (run_texts "gfa2" ops) = false.
Proof.
  exists [OAdd ("S" ++ String tab "A" ++ String tab "5" ++ String tab "*");
          OAdd ("S" ++ String tab "B" ++ String tab "5" ++ String tab "*");
          OAdd ("G" ++ String tab "g" ++ String tab "A+" ++ String tab "B+" ++ String tab "5" ++ String tab "*");
          OAdd ("U" ++ String tab "u" ++ String tab "A g"); ORm "g"].
  vm_compute. reflexivity.
Qed.
Print Assumptions C02_gap_in_set_refuted.

(* F49: a placeholder standing for a segment is replaced by a line of another record type with the same identifier *)
Theorem C02_cross_type_placeholder_refuted :
  exists ops, closed_b (run_texts "gfa2" ops) = false.
Proof.
  exists [OAdd ("E" ++ String tab "e" ++ String tab "A+" ++ String tab "B+" ++ String tab "0" ++ String tab "0" ++
                String tab "0" ++ String tab "0" ++ String tab "*");
          OAdd ("G" ++ String tab "A" ++ String tab "B+" ++ String tab "B-" ++ String tab "1" ++ String tab "*")].
  vm_compute. reflexivity.
Qed.
Print Assumptions C02_cross_type_placeholder_refuted.

(* non-vacuity: a history with forward references, fan-out 2 on one segment end, a path, removals — every state closed *)
Example C02_witness :
  let t := String tab EmptyString in
  let ops := [OAdd ("L" ++ t ++ "A" ++ t ++ "+" ++ t ++ "B" ++ t ++ "+" ++ t ++ "*");
              OAdd ("L" ++ t ++ "A" ++ t ++ "+" ++ t ++ "C" ++ t ++ "-" ++ t ++ "3M");
              OAdd ("P" ++ t ++ "p" ++ t ++ "A+,B+" ++ t ++ "*");
              OAdd ("S" ++ t ++ "A" ++ t ++ "*"); OAdd ("S" ++ t ++ "B" ++ t ++ "*"); OAdd ("S" ++ t ++ "C" ++ t ++ "*");
              ORm "A"] in
  closed_b (run_texts "gfa1" (firstn 3 ops)) = true /\ closed_b (run_texts "gfa1" (firstn 6 ops)) = true /\
  closed_b (run_texts "gfa1" ops) = true /\ names_unique_b (run_texts "gfa1" ops) = true /\
  List.length (lines (run_texts "gfa1" (firstn 6 ops))) = 6 /\ List.length (lines (run_texts "gfa1" ops)) = 2.
Proof. vm_compute. repeat split. Qed.
