(* Model/Line.v — construction of a line from text (line/common/construction.py, comment/construction.py,
   custom_record/construction.py, segment/segment.py, field/parser.py:_parse_gfa_tag, validate.py) and its
   written form (line/common/writer.py, comment/writer.py).  Record tables are the GENERATED Gen/Tables.v. *)
From Coq Require Import List String Ascii ZArith NArith Bool.
From GfaV Require Import Base.Py Base.Regex Gen.Tables Gen.Regexes Model.Align Model.Codec.
Import ListNotations.
Open Scope list_scope.
Open Scope string_scope.

Record rclass := mkClass {
  rc_name : string;                       (* short class name used by the translator *)
  rc_rt : option string;                  (* RECORD_TYPE *)
  rc_pos : list string;                   (* POSFIELDS *)
  rc_predef : list string;                (* PREDEFINED_TAGS *)
  rc_dt : list (string * string);         (* DATATYPE *)
  rc_version : option string;             (* VERSION (segments) *)
  rc_alias : list (string * string) }.    (* FIELD_ALIAS *)

Definition C_Header := mkClass "Header" T_Header_RECORD_TYPE T_Header_POSFIELDS T_Header_PREDEFINED_TAGS T_Header_DATATYPE T_Header_VERSION T_Header_FIELD_ALIAS.
Definition C_Comment := mkClass "Comment" T_Comment_RECORD_TYPE T_Comment_POSFIELDS T_Comment_PREDEFINED_TAGS T_Comment_DATATYPE T_Comment_VERSION T_Comment_FIELD_ALIAS.
Definition C_S1 := mkClass "SegmentGFA1" T_SegmentGFA1_RECORD_TYPE T_SegmentGFA1_POSFIELDS T_SegmentGFA1_PREDEFINED_TAGS T_SegmentGFA1_DATATYPE T_SegmentGFA1_VERSION T_SegmentGFA1_FIELD_ALIAS.
Definition C_S2 := mkClass "SegmentGFA2" T_SegmentGFA2_RECORD_TYPE T_SegmentGFA2_POSFIELDS T_SegmentGFA2_PREDEFINED_TAGS T_SegmentGFA2_DATATYPE T_SegmentGFA2_VERSION T_SegmentGFA2_FIELD_ALIAS.
Definition C_Link := mkClass "Link" T_Link_RECORD_TYPE T_Link_POSFIELDS T_Link_PREDEFINED_TAGS T_Link_DATATYPE T_Link_VERSION T_Link_FIELD_ALIAS.
Definition C_Cont := mkClass "Containment" T_Containment_RECORD_TYPE T_Containment_POSFIELDS T_Containment_PREDEFINED_TAGS T_Containment_DATATYPE T_Containment_VERSION T_Containment_FIELD_ALIAS.
Definition C_Edge := mkClass "EdgeGFA2" T_EdgeGFA2_RECORD_TYPE T_EdgeGFA2_POSFIELDS T_EdgeGFA2_PREDEFINED_TAGS T_EdgeGFA2_DATATYPE T_EdgeGFA2_VERSION T_EdgeGFA2_FIELD_ALIAS.
Definition C_Gap := mkClass "Gap" T_Gap_RECORD_TYPE T_Gap_POSFIELDS T_Gap_PREDEFINED_TAGS T_Gap_DATATYPE T_Gap_VERSION T_Gap_FIELD_ALIAS.
Definition C_Fragment := mkClass "Fragment" T_Fragment_RECORD_TYPE T_Fragment_POSFIELDS T_Fragment_PREDEFINED_TAGS T_Fragment_DATATYPE T_Fragment_VERSION T_Fragment_FIELD_ALIAS.
Definition C_Path := mkClass "Path" T_Path_RECORD_TYPE T_Path_POSFIELDS T_Path_PREDEFINED_TAGS T_Path_DATATYPE T_Path_VERSION T_Path_FIELD_ALIAS.
Definition C_Ordered := mkClass "Ordered" T_Ordered_RECORD_TYPE T_Ordered_POSFIELDS T_Ordered_PREDEFINED_TAGS T_Ordered_DATATYPE T_Ordered_VERSION T_Ordered_FIELD_ALIAS.
Definition C_Unordered := mkClass "Unordered" T_Unordered_RECORD_TYPE T_Unordered_POSFIELDS T_Unordered_PREDEFINED_TAGS T_Unordered_DATATYPE T_Unordered_VERSION T_Unordered_FIELD_ALIAS.
Definition C_Custom := mkClass "CustomRecord" T_CustomRecord_RECORD_TYPE T_CustomRecord_POSFIELDS T_CustomRecord_PREDEFINED_TAGS T_CustomRecord_DATATYPE T_CustomRecord_VERSION T_CustomRecord_FIELD_ALIAS.

(* a constructed line: class, version, fields in order (name, datatype, raw text as given) *)
Record line := mkLine {
  ln_class : rclass;
  ln_version : string;
  ln_pos : list (string * string * string);
  ln_tags : list (string * string * string) }.

Definition first_char (s : string) : option ascii := match s with String c _ => Some c | EmptyString => None end.

(* Segment._subclass: count the trailing fields that look like tags (re.search("^..:.:.*$")) *)
Fixpoint n_trailing_tags (rev_fields : list string) : nat :=
  match rev_fields with
  | [] => 0
  | f :: r => if py_fullmatch re_line_segment_segment__subclass f then S (n_trailing_tags r) else 0
  end.

Definition segment_subclass (data : list string) : res rclass :=
  (* data = "S" :: fields; n_positionals = number of fields before the trailing tag-like ones *)
  let fields := tl data in
  let npos := (List.length fields - n_trailing_tags (rev fields))%nat in
  if Nat.eqb npos 2 then Ok C_S1 else if Nat.eqb npos 3 then Ok C_S2 else Err (G EFormat).

Definition subclass_gfa1 (rt : string) : res rclass :=
  if String.eqb rt "H" then Ok C_Header else if String.eqb rt "S" then Ok C_S1
  else if String.eqb rt "#" then Ok C_Comment else if String.eqb rt "L" then Ok C_Link
  else if String.eqb rt "C" then Ok C_Cont else if String.eqb rt "P" then Ok C_Path
  else Err (G EVersion).

Definition subclass_gfa2 (rt : string) : rclass :=
  if String.eqb rt "H" then C_Header else if String.eqb rt "S" then C_S2
  else if String.eqb rt "#" then C_Comment else if String.eqb rt "E" then C_Edge
  else if String.eqb rt "F" then C_Fragment else if String.eqb rt "G" then C_Gap
  else if String.eqb rt "O" then C_Ordered else if String.eqb rt "U" then C_Unordered
  else C_Custom.

Definition subclass_unknown (data : list string) : res rclass :=
  let rt := hd "" data in
  if String.eqb rt "S" then segment_subclass data
  else if String.eqb rt "L" then Ok C_Link else if String.eqb rt "C" then Ok C_Cont
  else if String.eqb rt "P" then Ok C_Path else Ok (subclass_gfa2 rt).

(* Line._subclass(data, version) *)
Definition subclass (data : list string) (version : option string) : res rclass :=
  let rt := hd "" data in
  match first_char rt with
  | Some "#"%char => Ok C_Comment
  | _ =>
    match version with
    | None => subclass_unknown data
    | Some v => if String.eqb v "gfa1" then subclass_gfa1 rt
                else if String.eqb v "gfa2" then Ok (subclass_gfa2 rt)
                else Err (G EVersion)
    end
  end.

(* _compute_version / _validate_version *)
Definition compute_version (c : rclass) (rt : string) : res string :=
  if in_strs rt T_RTV_generic then Ok "generic"
  else if in_strs rt T_RTV_different then
    match rc_version c with Some v => Ok v | None => Err (G ERuntime) end
  else if in_strs rt T_RTV_specific_gfa1 then Ok "gfa1"
  else if in_strs rt T_RTV_specific_gfa2 then Ok "gfa2"
  else Ok "gfa2".

Definition validate_version (c : rclass) (v : string) : res unit :=
  if negb (in_strs v T_VERSIONS) then Err (G EVersion) else
  match rc_rt c with
  | None => Ok tt
  | Some rt =>
      if in_strs rt T_RTV_specific_gfa1 then (if String.eqb v "gfa1" then Ok tt else Err (G EVersion))
      else if in_strs rt T_RTV_specific_gfa2 then (if String.eqb v "gfa2" then Ok tt else Err (G EVersion))
      else Ok tt
  end.

(* _init_field_value: at vlevel >= 1 the safe decoder must accept the text *)
Definition init_field (O : oracle) (vlevel : nat) (dt s : string) : res unit :=
  if Nat.leb 1 vlevel then (if accepts O dt s then Ok tt else Err (G EFormat))
  else if in_strs dt T_DELAYED_PARSING_DATATYPES then Ok tt          (* level 0: parsed on access *)
  else match module_of dt with Some md => unsafe_accepts_module md s | None => Ok tt end.

(* Comment: the hash sign, then whitespace (the spacer), then the content (generated regex of _init_comment_data) *)
Definition is_space (c : ascii) : bool :=
  let n := nat_of_ascii c in ((9 <=? n)%nat && (n <=? 13)%nat) || ((28 <=? n)%nat && (n <=? 32)%nat).

Fixpoint span_spaces (s : string) : string * string :=
  match s with
  | EmptyString => (EmptyString, EmptyString)
  | String c r => if is_space c then let '(a, b) := span_spaces r in (String c a, b) else (EmptyString, s)
  end.

Definition parse_comment (O : oracle) (vlevel : nat) (s : string) : res line :=
  match s with
  | String "#" r =>
      let '(spacer, content) := span_spaces r in
      (* '.' does not match a newline: the content must be one line, and $ tolerates one final newline *)
      if negb (py_fullmatch re_line_common_construction__init_comment_data s) then Err (G EFormat) else
      do _ <- init_field O vlevel "comment" content ;;
      do _ <- init_field O vlevel "comment" spacer ;;
      Ok (mkLine C_Comment "generic" [("content", "comment", content); ("spacer", "comment", spacer)] [])
  | _ => Err (G EFormat)
  end.

(* _parse_gfa_tag: name, datatype, value of a text matching the generated tag regex *)
Definition parse_tag (s : string) : res (string * string * string) :=
  if negb (py_fullmatch re_field_parser__parse_gfa_tag s) then Err (G EFormat) else
  match s with
  | String a (String b (String _ (String t (String _ v)))) =>
      Ok (String a (String b EmptyString), String t EmptyString, v)
  | _ => Err (G EFormat)
  end.

Definition has_tag (n : string) (fields : list (string * string * string)) : bool :=
  existsb (fun f => String.eqb (fst (fst f)) n) fields.

(* _initialize_tag at vlevel > 0: uniqueness (against positional names and earlier tags), predefined type,
   custom tag name, then the value *)
Definition init_tag (O : oracle) (vlevel : nat) (c : rclass) (seen : list (string * string * string))
           (t : string * string * string) : res unit :=
  let '(n, dt, v) := t in
  if Nat.leb 1 vlevel then
    if has_tag n seen then Err (G ENotUnique)
    else if match assoc n (rc_alias c) with Some _ => true | None => false end then Err (G ENotUnique)
    else if in_strs n (rc_predef c) then
      match assoc n (rc_dt c) with
      | Some want => if String.eqb want dt then init_field O vlevel dt v else Err (G EType)
      | None => Err (Foreign KeyError)
      end
    else if py_fullmatch re_line_common_validate__is_valid_custom_tagname n then init_field O vlevel dt v
    else Err (G EFormat)
  else init_field O vlevel dt v.

Fixpoint init_tags (O : oracle) (vlevel : nat) (c : rclass) (seen : list (string * string * string))
         (tags : list string) : res (list (string * string * string)) :=
  match tags with
  | [] => Ok []
  | s :: r => do t <- parse_tag s ;;
              do _ <- init_tag O vlevel c seen t ;;
              do ts <- init_tags O vlevel c (seen ++ [t])%list r ;;
              Ok (t :: ts)
  end.

Fixpoint zip_fields (names : list string) (dts : list (string * string)) (vals : list string)
  : list (string * string * string) :=
  match names, vals with
  | n :: ns, v :: vs => (n, match assoc n dts with Some d => d | None => "" end, v) :: zip_fields ns dts vs
  | _, _ => []
  end.

Fixpoint init_fields (O : oracle) (vlevel : nat) (fs : list (string * string * string)) : res unit :=
  match fs with
  | [] => Ok tt
  | (_, dt, v) :: r => do _ <- init_field O vlevel dt v ;; init_fields O vlevel r
  end.

(* record type specific validation run by the constructor at vlevel >= 1 *)
Definition field_of (n : string) (fs : list (string * string * string)) : option string :=
  match find (fun f => String.eqb (fst (fst f)) n) fs with Some f => Some (snd f) | None => None end.

Definition specific_validation (c : rclass) (pos tags : list (string * string * string)) : res unit :=
  if String.eqb (rc_name c) "SegmentGFA1" then
    match field_of "sequence" pos, field_of "LN" tags with
    | Some sq, Some ln =>
        if String.eqb sq "*" then Ok tt else
        match py_int ln with
        | Some z => if Z.eqb z (Z.of_nat (String.length sq)) then Ok tt else Err (G EInconsistency)
        | None => Ok tt
        end
    | _, _ => Ok tt
    end
  else if String.eqb (rc_name c) "Fragment" then
    let chk (b e : option string) : res unit :=
      match b, e with
      | Some bs, Some es =>
          let islast (x : string) := match last_char x with Some "$"%char => true | _ => false end in
          let value (x : string) := match py_int (if islast x then drop_last x else x) with Some z => z | None => 0%Z end in
          if Z.gtb (value bs) (value es) then Err (G EValue)
          else if islast bs && negb (islast es) then Err (G EFormat) else Ok tt
      | _, _ => Ok tt
      end in
    do _ <- chk (field_of "s_beg" pos) (field_of "s_end" pos) ;;
    chk (field_of "f_beg" pos) (field_of "f_end" pos)
  else if String.eqb (rc_name c) "Path" then
    match field_of "segment_names" pos, field_of "overlaps" pos with
    | Some sn, Some ov =>
        let nseg := List.length (split_on comma sn) in
        let novl := List.length (split_on comma ov) in
        if Nat.eqb novl (nseg - 1) then Ok tt
        else if Nat.eqb novl 1 && String.eqb ov "*" then Ok tt
        else if Nat.eqb novl nseg then Ok tt
        else Err (G EInconsistency)
    | _, _ => Ok tt
    end
  else Ok tt.

(* custom records: tags are peeled from the back while they parse and initialise; the rest are generic fields *)
Fixpoint peel_tags (O : oracle) (vlevel : nat) (rev_fields : list string) (acc : list (string * string * string))
  : list (string * string * string) * list string :=
  match rev_fields with
  | [] => (acc, [])
  | f :: r =>
      match parse_tag f with
      | Ok t => match init_tag O vlevel C_Custom acc t with
                | Ok _ => peel_tags O vlevel r (t :: acc)
                | Err _ => (acc, rev_fields)
                end
      | Err _ => (acc, rev_fields)
      end
  end.

Fixpoint number_fields (i : nat) (vals : list string) : list (string * string * string) :=
  match vals with
  | [] => []
  | v :: r => ("field" ++ str_of_Z (Z.of_nat i), "generic", v) :: number_fields (S i) r
  end.

Definition parse_custom (O : oracle) (vlevel : nat) (data : list string) : res line :=
  let rt := hd "" data in
  let '(tags_rev_order, rest_rev) := peel_tags O vlevel (rev (tl data)) [] in
  if in_strs rt ["P"; "C"; "L"] then Err (G EVersion) else
  do _ <- init_field O vlevel "custom_record_type" rt ;;
  let pos := number_fields 1 (rev rest_rev) in
  do _ <- init_fields O vlevel pos ;;
  Ok (mkLine C_Custom "gfa2" (("record_type", "custom_record_type", rt) :: pos) tags_rev_order).

(* gfapy.Line(text, vlevel, version) *)
Definition parse_line (O : oracle) (vlevel : nat) (version : option string) (s : string) : res line :=
  let data := split_on tab s in
  do c <- subclass data version ;;
  if String.eqb (rc_name c) "Comment" then
    (* the constructor re-joins the fields of a comment: the whole text is the comment *)
    do l <- parse_comment O vlevel s ;;
    match version with
    | None => Ok l
    | Some v => do _ <- validate_version C_Comment v ;; Ok (mkLine C_Comment v (ln_pos l) (ln_tags l))
    end
  else
  let rt := hd "" data in
  do v <- match version with
          | None => compute_version c rt
          | Some v => do _ <- validate_version c v ;; Ok v
          end ;;
  if String.eqb (rc_name c) "CustomRecord" then
    do l <- parse_custom O vlevel data ;; Ok (mkLine C_Custom v (ln_pos l) (ln_tags l))
  else
  let npos := List.length (rc_pos c) in
  if Nat.ltb (List.length data - 1) npos then Err (G EFormat) else
  let pos := zip_fields (rc_pos c) (rc_dt c) (tl data) in
  do _ <- init_fields O vlevel pos ;;
  do tags <- init_tags O vlevel c pos (skipn npos (tl data)) ;;
  do _ <- (if Nat.leb 1 vlevel then specific_validation c pos tags else Ok tt) ;;
  Ok (mkLine c v pos tags).

(* ---------- written form (vlevel >= 1: every field was decoded, the writer encodes it) ---------- *)
Definition field_text (O : oracle) (f : string * string * string) : string :=
  let '(_, dt, v) := f in canon O dt v.

Definition tag_text (O : oracle) (f : string * string * string) : string :=
  let '(n, dt, v) := f in n ++ ":" ++ dt ++ ":" ++ canon O dt v.

Definition line_to_s (O : oracle) (l : line) : string :=
  if String.eqb (rc_name (ln_class l)) "Comment" then
    match ln_pos l with
    | [(_, _, content); (_, _, spacer)] => "#" ++ spacer ++ content
    | _ => "#"
    end
  else
    let rt := match rc_rt (ln_class l) with
              | Some r => r
              | None => match ln_pos l with (_, _, r) :: _ => r | [] => "" end
              end in
    let pos := match rc_rt (ln_class l) with Some _ => ln_pos l | None => tl (ln_pos l) end in
    join_with (String tab EmptyString) (rt :: map (field_text O) pos ++ map (tag_text O) (ln_tags l))%list.
