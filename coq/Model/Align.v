(* Model/Align.v — alignment values (gfapy/alignment/*.py): placeholder, CIGAR, trace.
   CIGAR operations are (length, code) pairs; complement and the two length functions are the
   GENERATED kernels (Gen/K_cigar.v), so this file only adds the dispatch that Python does by
   class (Placeholder.complement, Trace.complement) and the mixed-class equality. *)
From Coq Require Import List String Ascii ZArith Bool.
From GfaV Require Import Base.Py Gen.Tables Gen.K_cigar.
Import ListNotations.

Definition cigop := (Z * string)%type.
Definition cigar := list cigop.

Inductive alignment :=
| APlaceholder
| ACigar (c : cigar)
| ATrace (t : list Z).

(* CIGAR.Operation.__eq__ *)
Definition cigop_eqb (a b : cigop) : bool := Z.eqb (fst a) (fst b) && String.eqb (snd a) (snd b).

Fixpoint cigar_eqb (a b : cigar) : bool :=
  match a, b with
  | [], [] => true
  | x :: a', y :: b' => cigop_eqb x y && cigar_eqb a' b'
  | _, _ => false
  end.

Fixpoint zlist_eqb (a b : list Z) : bool :=
  match a, b with
  | [], [] => true
  | x :: a', y :: b' => Z.eqb x y && zlist_eqb a' b'
  | _, _ => false
  end.

Definition is_nil {A} (l : list A) : bool := match l with [] => true | _ => false end.

(* `a == b` as Python evaluates it: list.__eq__ between two lists of the same kind (a CIGAR and a
   Trace are both `list` subclasses: elements compared pairwise, an int never equals an
   Operation, so only two empty lists are equal across kinds); Placeholder.__eq__ is
   gfapy.is_placeholder(other), true for an empty list *)
Definition aln_eqb (a b : alignment) : bool :=
  match a, b with
  | APlaceholder, APlaceholder => true
  | APlaceholder, ACigar c | ACigar c, APlaceholder => is_nil c
  | APlaceholder, ATrace t | ATrace t, APlaceholder => is_nil t
  | ACigar x, ACigar y => cigar_eqb x y
  | ATrace x, ATrace y => zlist_eqb x y
  | ACigar x, ATrace y => is_nil x && is_nil y
  | ATrace x, ACigar y => is_nil x && is_nil y
  end.

(* obj.complement(): CIGAR -> generated kernel; Placeholder -> itself; Trace -> placeholder *)
Definition aln_complement (a : alignment) : alignment :=
  match a with
  | APlaceholder => APlaceholder
  | ACigar c => ACigar (k_cigar_complement c)
  | ATrace _ => APlaceholder
  end.

(* truth value of an alignment object (`not self.overlap`): empty list / placeholder are falsy *)
Definition aln_truthy (a : alignment) : bool :=
  match a with
  | APlaceholder => false
  | ACigar c => negb (is_nil c)
  | ATrace t => negb (is_nil t)
  end.

(* the codes for which the property claims the involution *)
Definition involutive_codes : list string := ["M"; "I"; "D"; "P"; "="; "X"; "H"]%string.
Definition cigar_codes_in (codes : list string) (c : cigar) : bool :=
  forallb (fun op => in_strs (snd op) codes) c.
Definition aln_codes_in (codes : list string) (a : alignment) : bool :=
  match a with ACigar c => cigar_codes_in codes c | _ => true end.
