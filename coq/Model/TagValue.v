(* Model/TagValue.v — default datatype of a value assigned to a new tag
   (field/field.py:_get_default_gfa_tag_datatype over the GENERATED _default_tag_datatypes table). *)
From Coq Require Import List String Ascii ZArith Bool.
From GfaV Require Import Base.Py Gen.Tables.
Import ListNotations.
Open Scope string_scope.

(* the Python classes a tag value can have, as far as the dispatch distinguishes them *)
Inductive vkind :=
| KInt | KBool | KFloat | KStr | KDict
| KListInts | KListFloats | KListEmpty | KListOther
| KNumericArray | KByteArray | KFieldArray (dt : string).

(* classes of the value in method-resolution order, by name *)
Definition mro (k : vkind) : list string :=
  match k with
  | KInt => ["int"; "object"] | KBool => ["bool"; "int"; "object"] | KFloat => ["float"; "object"]
  | KStr => ["str"; "object"] | KDict => ["dict"; "object"]
  | KListInts | KListFloats | KListEmpty | KListOther => ["list"; "object"]
  | KNumericArray => ["NumericArray"; "list"; "object"] | KByteArray => ["ByteArray"; "bytes"; "object"]
  | KFieldArray _ => ["FieldArray"; "object"]
  end.

Definition default_datatype (k : vkind) : string :=
  match k with
  | KNumericArray => "B"                        (* obj._default_gfa_tag_datatype() *)
  | KByteArray => "H"
  | KFieldArray dt => dt
  | KListInts | KListFloats => "B"              (* non-empty list of ints or of floats *)
  | _ => match find (fun p => in_strs (fst p) (mro k)) T_default_tag_datatypes with
         | Some p => snd p
         | None => "J"
         end
  end.

(* the documented defaults *)
Definition documented_default (k : vkind) : string :=
  match k with
  | KInt | KBool => "i" | KFloat => "f" | KStr => "Z" | KDict | KListOther | KListEmpty => "J"
  | KListInts | KListFloats | KNumericArray => "B" | KByteArray => "H" | KFieldArray dt => dt
  end.
