(* Model/Clone.v — Line.clone as a copy of object graphs (line/common/cloning.py).
   A field value is a tree of objects; mutable containers (lists, CIGARs and their operations, JSON arrays/objects,
   oriented lines, field arrays) carry an identity (loc); two values share state exactly when they contain a node
   with the same identity.  An in-place edit of the object with identity l changes every value that contains it. *)
From Coq Require Import List String Ascii ZArith Bool.
From GfaV Require Import Base.Py Gen.K_clone.
Import ListNotations.
Open Scope string_scope.
Open Scope list_scope.

Definition loc := nat.
Inductive tree := Leaf (s : string) | Node (l : loc) (tag : string) (kids : list tree).

Fixpoint render (t : tree) : string :=
  match t with
  | Leaf s => s
  | Node _ tag kids => (tag ++ "(" ++ String.concat "," (map render kids) ++ ")")%string
  end.

Fixpoint locs (t : tree) : list loc :=
  match t with
  | Leaf _ => []
  | Node l _ kids => l :: flat_map locs kids
  end.

Fixpoint relabel (off : nat) (t : tree) : tree :=
  match t with
  | Leaf s => Leaf s
  | Node l tag kids => Node (l + off) tag (map (relabel off) kids)
  end.

(* the in-place edit: the object with identity target gets new content *)
Fixpoint write (target : loc) (tag' : string) (kids' : list tree) (t : tree) : tree :=
  match t with
  | Leaf s => Leaf s
  | Node l tag kids => if Nat.eqb l target then Node l tag' kids' else Node l tag (map (write target tag' kids') kids)
  end.

(* the kinds of stored values Cloning.clone distinguishes, in the order of its if/elif chain *)
Inductive vkind := VStr | VList | VOriented | VFieldArray | VOtherImmutable | VOtherMutable.
Inductive mode := Share | Deep | Render.

(* the rule is the regenerated if/elif chain of Cloning.clone (Gen/K_clone.v) *)
Definition is_kind (a b : vkind) : bool :=
  match a, b with
  | VStr, VStr | VList, VList | VOriented, VOriented | VFieldArray, VFieldArray
  | VOtherImmutable, VOtherImmutable | VOtherMutable, VOtherMutable => true
  | _, _ => false
  end.

Definition mode_of_string (s : string) : mode :=
  if String.eqb s "render" then Render else if String.eqb s "deep" then Deep else Share.

Definition clone_mode (reference_field json_field : bool) (k : vkind) : mode :=
  mode_of_string (k_clone_mode reference_field json_field (is_kind k VList) (is_kind k VStr) (is_kind k VOriented)
                               (is_kind k VFieldArray)).

Record field := mkField { f_name : string; f_ref : bool; f_json : bool; f_kind : vkind; f_val : tree }.
Definition pline := list field.

Definition clone_field (off : nat) (f : field) : field :=
  match clone_mode (f_ref f) (f_json f) (f_kind f) with
  | Share => f
  | Deep => mkField (f_name f) (f_ref f) (f_json f) (f_kind f) (relabel off (f_val f))
  | Render => mkField (f_name f) false (f_json f) VStr (Leaf (render (f_val f)))
  end.

Definition clone (off : nat) (l : pline) : pline := map (clone_field off) l.

Definition line_locs (l : pline) : list loc := flat_map (fun f => locs (f_val f)) l.
Definition render_line (l : pline) : list (string * string) := map (fun f => (f_name f, render (f_val f))) l.

(* an identity bound: every identity of the line is below it (the allocator hands out identities above it) *)
Definition bounded (b : nat) (l : pline) : Prop := forall x, In x (line_locs l) -> x < b.

(* edits of a line: in-place edit of one of the objects, or assignment of a new value to a field *)
Inductive edit := EWrite (target : loc) (tag : string) (kids : list tree) | ESet (name : string) (v : tree).

Definition apply_edit (e : edit) (l : pline) : pline :=
  match e with
  | EWrite t tag kids => map (fun f => mkField (f_name f) (f_ref f) (f_json f) (f_kind f) (write t tag kids (f_val f))) l
  | ESet n v => map (fun f => if String.eqb (f_name f) n then mkField (f_name f) (f_ref f) (f_json f) (f_kind f) v else f) l
  end.

(* the world: two lines; an in-place edit reaches an object wherever it is referenced from, an assignment concerns the
   line it is made on *)
Definition edit_world (on_clone : bool) (e : edit) (w : pline * pline) : pline * pline :=
  match e with
  | EWrite _ _ _ => (apply_edit e (fst w), apply_edit e (snd w))
  | ESet _ _ => if on_clone then (fst w, apply_edit e (snd w)) else (apply_edit e (fst w), snd w)
  end.
