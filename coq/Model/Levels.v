(* Model/Levels.v — when an invalid assignment surfaces, by validation level (FieldData.set/_set_existing_field,
   Writer.field_to_s, Validate.validate_field): level 3 validates at the assignment, level >= 2 validates when the field
   is written, validate()/validate_field() validate at every level.  `valid` is the validator of the datatype
   (Codec.accepts over the regenerated grammars). *)
From Coq Require Import List String Ascii ZArith Bool.
From GfaV Require Import Base.Py Gen.K_levels Model.Codec.
Import ListNotations.
Open Scope string_scope.

Record fcell := mkF { f_dt : string; f_text : string }.

Definition valid (O : oracle) (c : fcell) : bool := accepts O (f_dt c) (f_text c).

(* the thresholds are read from the source (Gen/K_levels.v): the first comparison of the validation level in
   FieldData._set_existing_field and in Writer.field_to_s *)
Definition level_of (l : list (string * Z)) (i : nat) : nat :=
  match nth_error l i with Some (_, z) => Z.to_nat z | None => O end.
Definition set_level : nat := level_of T_VLEVELS_set_existing_field 0.
Definition write_level : nat := level_of T_VLEVELS_field_to_s 0.
Definition init_level : nat := level_of T_VLEVELS_init_field_value 0.

Inductive lop := LSet (v : string) | LWrite | LValidate.

(* the outcome of one operation on a field at a level: new stored value and what the caller sees *)
Definition lstep (O : oracle) (level : nat) (c : fcell) (o : lop) : fcell * res string :=
  match o with
  | LSet v =>
      let c' := mkF (f_dt c) v in
      if Nat.leb set_level level && negb (valid O c') then (c, Err (G EFormat)) else (c', Ok "")
  | LWrite =>
      if Nat.leb write_level level && negb (valid O c) then (c, Err (G EFormat)) else (c, Ok (f_text c))
  | LValidate => if valid O c then (c, Ok "") else (c, Err (G EFormat))
  end.

Fixpoint lrun (O : oracle) (level : nat) (c : fcell) (ops : list lop) : fcell * list (res string) :=
  match ops with
  | [] => (c, [])
  | o :: r => let '(c1, out) := lstep O level c o in
              let '(c2, outs) := lrun O level c1 r in (c2, out :: outs)
  end.
