(* Model/Topology.v — connected components and counters of the assembly graph, computed from the reference
   semantics (Model/Graph.v): two segments are adjacent iff a dovetail record (an L line, or an E line filed as a
   dovetail by the GENERATED kernels) mentions both.  Hand model of graph_operations/topology.py:
   connected_components, segment_connected_component, n_dovetails, n_containments, n_internals, n_dead_ends. *)
From Coq Require Import List String Ascii ZArith Bool.
From GfaV Require Import Base.Py Gen.Tables Model.Align Model.Link Model.Codec Model.Line Model.Graph.
Import ListNotations.
Open Scope string_scope.
Open Scope list_scope.

Definition is_dovetail_coll (c : string) : bool := String.eqb c "dovetails_L" || String.eqb c "dovetails_R".

(* names of the segments a line joins by a dovetail (both ends; a hairpin or self-link joins a segment to itself) *)
Definition dovetail_ends (l : gl) : list string :=
  map m_target (filter (fun m => is_dovetail_coll (m_coll m)) (mentions l)).

Definition adjacent (s : gfa) (a b : string) : bool :=
  existsb (fun l => in_strs a (dovetail_ends l) && in_strs b (dovetail_ends l)) (lines s).

Definition segment_names (s : gfa) : list string :=
  map (fun l => nth_s 0 (g_pos l)) (filter is_segment (lines s)).

Definition neighbours (s : gfa) (a : string) : list string :=
  filter (adjacent s a) (segment_names s).

Fixpoint add_new (xs acc : list string) : list string :=
  match xs with
  | [] => acc
  | x :: r => if in_strs x acc then add_new r acc else add_new r (acc ++ [x])
  end.

(* n rounds of "add the neighbours of everything found so far" *)
Fixpoint saturate (n : nat) (s : gfa) (acc : list string) : list string :=
  match n with
  | O => acc
  | S k => saturate k s (add_new (flat_map (neighbours s) acc) acc)
  end.

Definition closed_adj (s : gfa) (acc : list string) : bool :=
  forallb (fun a => forallb (fun b => in_strs b acc) (neighbours s a)) acc.

(* Gfa.segment_connected_component(a): checked closure, so that too little fuel cannot go unnoticed *)
Definition component (s : gfa) (a : string) : res (list string) :=
  let c := saturate (List.length (segment_names s)) s [a] in
  if closed_adj s c then Ok c else Err (Foreign RecursionError).

(* Gfa.connected_components(): one component per not yet visited segment, in the order of the segments *)
Fixpoint components_from (s : gfa) (todo : list string) (seen : list string) : res (list (list string)) :=
  match todo with
  | [] => Ok []
  | a :: r => if in_strs a seen then components_from s r seen
              else do c <- component s a ;;
                   do cs <- components_from s r (seen ++ c) ;;
                   Ok (c :: cs)
  end.

Definition connected_components (s : gfa) : res (list (list string)) :=
  components_from s (segment_names s) [].

(* counters: each segment contributes the size of its collections, the total is halved *)
Definition coll_size (s : gfa) (n c : string) : nat := List.length (backrefs s n c).
Definition sum_nat (l : list nat) : nat := fold_right Nat.add 0 l.

Definition n_dovetails (s : gfa) : nat :=
  Nat.div (sum_nat (map (fun n => coll_size s n "dovetails_L" + coll_size s n "dovetails_R") (segment_names s))) 2.
Definition n_containments (s : gfa) : nat :=
  Nat.div (sum_nat (map (fun n => coll_size s n "edges_to_contained" + coll_size s n "edges_to_containers") (segment_names s))) 2.
Definition n_internals (s : gfa) : nat :=
  Nat.div (sum_nat (map (fun n => coll_size s n "internals") (segment_names s))) 2.
Definition n_dead_ends (s : gfa) : nat :=
  sum_nat (map (fun n => (if Nat.eqb (coll_size s n "dovetails_L") 0 then 1 else 0) +
                         (if Nat.eqb (coll_size s n "dovetails_R") 0 then 1 else 0)) (segment_names s)).

(* counting the records of the document instead *)
Definition record_class (l : gl) : string :=
  match g_rk l with
  | KL => "L" | KC => "C"
  | KE => match mentions l with
          | m :: _ => if is_dovetail_coll (m_coll m) then "L"
                      else if String.eqb (m_coll m) "internals" then "I" else "C"
          | [] => "?"
          end
  | _ => ""
  end.
Definition count_class (s : gfa) (c : string) : nat :=
  List.length (filter (fun l => String.eqb (record_class l) c) (lines s)).
