(* Model/Codec.v — the 26 field datatypes: which strings the safe decoder accepts (validation level >= 1)
   and what the writer prints for the decoded value (canonical spelling).
   Every regular expression is a GENERATED definition (Gen/Regexes.v, read from the re.* call sites); the
   structure around them (which check runs for which datatype, int()/split/unhexlify/json behaviour) is the
   hand model of gfapy/field/*.py, alignment/*.py, numeric_array.py, byte_array.py, lastpos.py.
   Floats and JSON go through an oracle record: their spelling is Python's and is not re-implemented. *)
From Coq Require Import List String Ascii ZArith NArith Bool DecimalString DecimalZ.
From GfaV Require Import Base.Py Base.Regex Gen.Tables Gen.Regexes Gen.K_cigar Gen.K_numarr Gen.K_narange Model.Align.
Import ListNotations.
Open Scope list_scope.
Open Scope string_scope.

(* ---------- Python str/int primitives ---------- *)
Definition str_of_Z (z : Z) : string := NilZero.string_of_int (Z.to_int z).

(* int(s) restricted to what the regexes in front of it let through: optional sign, decimal digits *)
Definition py_int_core (s : string) : option Z :=
  match s with
  | String "+" r => option_map (fun d => Z.of_int (Decimal.Pos d)) (NilZero.uint_of_string r)
  | _ => option_map Z.of_int (NilZero.int_of_string s)
  end.

(* int() strips surrounding whitespace; the only whitespace the `$`-anchored regexes in front of it let
   through is one trailing newline *)
Definition py_int (s : string) : option Z :=
  match drop_last_nl s with Some t => py_int_core t | None => py_int_core s end.

Fixpoint split_on (c : ascii) (s : string) : list string :=
  match s with
  | EmptyString => [EmptyString]
  | String a r =>
      if Ascii.eqb a c then EmptyString :: split_on c r
      else match split_on c r with
           | x :: xs => String a x :: xs
           | [] => [String a EmptyString]
           end
  end.

Fixpoint join_with (sep : string) (l : list string) : string :=
  match l with
  | [] => EmptyString
  | [x] => x
  | x :: xs => x ++ sep ++ join_with sep xs
  end.

Definition tab : ascii := ascii_of_nat 9.
Definition comma : ascii := ","%char.
Definition space : ascii := " "%char.

Fixpoint last_char (s : string) : option ascii :=
  match s with
  | EmptyString => None
  | String c EmptyString => Some c
  | String _ r => last_char r
  end.

Fixpoint drop_last (s : string) : string :=
  match s with
  | EmptyString => EmptyString
  | String c EmptyString => EmptyString
  | String c r => String c (drop_last r)
  end.

Definition is_digit (c : ascii) : bool := (48 <=? nat_of_ascii c)%nat && (nat_of_ascii c <=? 57)%nat.

(* ---------- oracle for Python's float and json spelling ---------- *)
Record oracle := mkOracle {
  fcanon : string -> string;           (* str(float(s)) for a string matching the float grammar *)
  jcanon : string -> option string }.  (* json.dumps(json.loads(s)) if s is a JSON array/object, else None *)

(* ---------- CIGAR / trace / alignment parsing (alignment.py, cigar.py, trace.py) ---------- *)
(* operations of a string that matched ([0-9]+[codes])+ : what re.finditer("([0-9]+)([MIDNSHPX=])") yields *)
Fixpoint cigar_ops (s : string) (digits : string) : list (string * ascii) :=
  match s with
  | EmptyString => []
  | String c r => if is_digit c then cigar_ops r (digits ++ String c EmptyString)
                  else if existsb (Ascii.eqb c) (list_ascii_of_string "MIDNSHPX=") &&
                          negb (String.eqb digits EmptyString)
                       then (digits, c) :: cigar_ops r EmptyString
                       else cigar_ops r EmptyString
  end.

Definition cigar_of_string (s : string) : cigar :=
  map (fun p => (match py_int (fst p) with Some z => z | None => 0%Z end, String (snd p) EmptyString))
      (cigar_ops s EmptyString).

(* first non-digit character after a leading digit run (Alignment._from_string's scan) *)
Fixpoint after_digits (s : string) : option ascii :=
  match s with
  | EmptyString => None
  | String c r => if is_digit c then after_digits r else Some c
  end.

Definition in_chars (c : ascii) (cs : string) : bool :=
  existsb (Ascii.eqb c) (list_ascii_of_string cs).

Definition parse_trace (s : string) : res alignment :=
  if negb (py_fullmatch re_alignment_trace__from_string s) then Err (G EFormat) else
  match rmapM (fun e => match py_int e with Some z => Ok z | None => Err (G EFormat) end) (split_on comma s) with
  | Ok zs => Ok (ATrace zs)
  | Err e => Err e
  end.

Definition trace_validate (a : alignment) : res alignment :=
  match a with
  | ATrace zs => if forallb (fun z => Z.leb 0 z) zs then Ok a else Err (G EValue)
  | _ => Ok a
  end.

(* gfapy.Alignment(s, valid=False, version=v) for a str argument *)
Definition parse_alignment (v : string) (s : string) : res alignment :=
  if String.eqb s "*" then Ok APlaceholder else
  match s with
  | EmptyString => Err (G EFormat)
  | String c0 _ =>
      if negb (is_digit c0) then Err (G EFormat) else
      match after_digits s with
      | None => if String.eqb v "gfa2" then rbind (parse_trace s) trace_validate else Err (G EFormat)
      | Some c =>
          if Ascii.eqb c comma then
            (if String.eqb v "gfa2" then rbind (parse_trace s) trace_validate else Err (G EFormat))
          else if in_chars c "MIDP" || (in_chars c "=XSHN" && String.eqb v "gfa1") then
            (if py_fullmatch (if String.eqb v "gfa1" then re_alignment_cigar__from_string
                              else re_alignment_cigar__from_string_1) s
             then Ok (ACigar (cigar_of_string s)) else Err (G EFormat))
          else Err (G EFormat)
      end
  end.

Definition cigar_to_string (c : cigar) : string :=
  match c with
  | [] => "*"
  | _ => String.concat "" (map (fun op => str_of_Z (fst op) ++ snd op) c)
  end.

Definition alignment_to_string (a : alignment) : string :=
  match a with
  | APlaceholder => "*"
  | ACigar c => cigar_to_string c
  | ATrace [] => "*"
  | ATrace zs => join_with "," (map str_of_Z zs)
  end.

(* ---------- numeric arrays ---------- *)
Definition na_subtype_range (st : string) : option (Z * Z) := assoc st T_NA_SUBTYPE_RANGE.

(* NumericArray.from_string(valid=False) followed by validate_encoded: Ok (subtype, elements) *)
Definition na_parse (s : string) : res (string * list string) :=
  match s with
  | EmptyString => Err (G EFormat)
  | _ =>
    if match last_char s with Some c => Ascii.eqb c comma | None => false end then Err (G EFormat) else
    match split_on comma s with
    | [] => Err (G EFormat)
    | st :: elems =>
        if negb (in_strs st T_NA_SUBTYPE) then Err (G EType) else
        if String.eqb st "f" then
          (* float(e) accepts more than the grammar; whatever passes is re-checked by validate_encoded *)
          (if py_fullmatch re_field_numeric_array_validate_encoded s then Ok (st, elems)
           else if forallb (fun e => py_fullmatch re_field_float_validate_encoded e) elems
                then Err (G EFormat) else Err (G EValue))
        else
          match na_subtype_range st with
          | None => Err (Foreign KeyError)
          | Some (lo, hi) =>
              match rmapM (fun e => match py_int e with
                                    | Some z => if k_na_in_range z lo hi then Ok z else Err (G EValue)      (* the GENERATED range test *)
                                    | None => Err (G EValue) end) elems with
              | Err e => Err e
              | Ok _ => if py_fullmatch re_field_numeric_array_validate_encoded s then Ok (st, elems)
                        else Err (G EFormat)
              end
          end
    end
  end.

Fixpoint zmin (l : list Z) (d : Z) : Z := match l with [] => d | x :: r => Z.min x (zmin r x) end.
Fixpoint zmax (l : list Z) (d : Z) : Z := match l with [] => d | x :: r => Z.max x (zmax r x) end.

(* str(NumericArray): subtype recomputed from the values (compute_subtype + generated integer_type) *)
Definition na_canon (O : oracle) (st : string) (elems : list string) : res string :=
  if String.eqb st "f" then Ok (join_with "," ("f" :: map (fcanon O) elems))
  else
    let zs := map (fun e => match py_int e with Some z => z | None => 0%Z end) elems in
    match zs with
    | [] => Err (G EValue)
    | z :: _ => do st' <- k_integer_type (zmin zs z, zmax zs z) ;;
                Ok (join_with "," (st' :: map str_of_Z zs))
    end.

(* ---------- byte arrays ---------- *)
Fixpoint even_length (s : string) : bool :=
  match s with
  | EmptyString => true
  | String _ EmptyString => false
  | String _ (String _ r) => even_length r
  end.

(* float(s) of a string in the float grammar can overflow to inf; the decoded value is then rejected *)
Definition finite_spelling (t : string) : bool := negb (in_strs t ["inf"; "-inf"; "nan"]).

(* ---------- acceptance by the safe decoder (module name of the datatype) ---------- *)
Definition m (r : re) (s : string) : bool := py_fullmatch r s.

Definition accepts_module (O : oracle) (md : string) (s : string) : bool :=
  if String.eqb md "alignment_gfa1" then is_ok (parse_alignment "gfa1" s)
  else if String.eqb md "alignment_gfa2" then is_ok (parse_alignment "gfa2" s)
  else if String.eqb md "alignment_list_gfa1" then m re_field_alignment_list_gfa1_validate_encoded s
  else if String.eqb md "byte_array" then m re_field_byte_array_validate_encoded s && even_length s && no_newline s
  else if String.eqb md "char" then m re_field_char_validate_encoded s
  else if String.eqb md "comment" then negb (in_chars nl s)
  else if String.eqb md "custom_record_type" then
    m re_field_custom_record_type_validate_encoded s && negb (in_strs s ["E"; "G"; "F"; "O"; "U"; "H"; "#"; "S"])
  else if String.eqb md "float" then m re_field_float_validate_encoded s && finite_spelling (fcanon O s)
  else if String.eqb md "generic" then negb (in_chars nl s) && negb (in_chars tab s)
  else if String.eqb md "identifier_gfa2" then m re_field_identifier_gfa2_validate_encoded s
  else if String.eqb md "oriented_identifier_gfa2" then
    match last_char s with
    | None => false
    | Some o => m re_field_oriented_identifier_gfa2_validate_decoded (drop_last s) &&
                (Ascii.eqb o "+" || Ascii.eqb o "-")
    end
  else if String.eqb md "identifier_list_gfa2" then m re_field_identifier_list_gfa2_validate_encoded s
  else if String.eqb md "integer" then m re_field_integer_validate_encoded s
  else if String.eqb md "json" then
    m re_field_json_validate_all_printable s && match jcanon O s with Some _ => true | None => false end
  else if String.eqb md "numeric_array" then
    match na_parse s with
    | Ok (st, elems) => negb (String.eqb st "f") || forallb (fun e => finite_spelling (fcanon O e)) elems
    | Err _ => false
    end
  else if String.eqb md "optional_identifier_gfa2" then
    String.eqb s "*" || m re_field_optional_identifier_gfa2_validate_encoded s
  else if String.eqb md "optional_integer" then
    m re_field_optional_integer_validate_encoded s &&
    (String.eqb s "*" || match py_int s with Some _ => true | None => false end)
  else if String.eqb md "orientation" then String.eqb s "+" || String.eqb s "-"
  else if String.eqb md "oriented_identifier_list_gfa1" then
    m re_field_oriented_identifier_list_gfa1_validate_encoded s &&
    forallb (fun e => match last_char e with
                      | None => false
                      | Some o => (Ascii.eqb o "+" || Ascii.eqb o "-") &&
                                  m re_field_oriented_identifier_list_gfa1_validate_decoded (drop_last e) &&
                                  m re_oriented_line___validate_line (drop_last e)
                      end) (split_on comma s)
  else if String.eqb md "oriented_identifier_list_gfa2" then m re_field_oriented_identifier_list_gfa2_validate_encoded s
  else if String.eqb md "path_name_gfa1" then m re_field_path_name_gfa1_validate_encoded s
  else if String.eqb md "position_gfa1" then m re_field_position_gfa1_validate_encoded s
  else if String.eqb md "position_gfa2" then
    m re_field_position_gfa2_validate_encoded s &&
    match (match last_char s with Some "$"%char => py_int (drop_last s) | _ => py_int s end) with
    | Some _ => true | None => false end
  else if String.eqb md "segment_name_gfa1" then
    m re_field_segment_name_gfa1_validate_encoded s && negb (py_search re_field_segment_name_gfa1_validate_encoded_1 s)
  else if String.eqb md "sequence_gfa1" then String.eqb s "*" || m re_field_sequence_gfa1_validate_encoded s
  else if String.eqb md "sequence_gfa2" then String.eqb s "*" || m re_field_sequence_gfa2_validate_encoded s
  else if String.eqb md "string" then m re_field_string_validate_encoded s
  else false.

Definition module_of (dt : string) : option string := assoc dt T_FIELD_MODULE.

Definition accepts (O : oracle) (dt : string) (s : string) : bool :=
  match module_of dt with Some md => accepts_module O md s | None => false end.

(* ---------- the unsafe decoders used at validation level 0 (field/*.py unsafe_decode) ----------
   Python's int() and float() on 7-bit text: optional surrounding whitespace, optional sign, digits with single
   underscores between them; float() also a fraction, an exponent, inf/infinity/nan in any case. *)
Definition ws : re := Cls [(9, 13); (28, 32)]%N.
Definition dig : re := Cls [(48, 57)]%N.
Definition digits_u : re := Cat dig (Star (Cat (Opt (Chr "_")) dig)).
Definition sign_opt : re := Opt (Cls [(43, 43); (45, 45)]%N).
Definition re_py_int : re := Cat (Star ws) (Cat sign_opt (Cat digits_u (Star ws))).
Definition ci (c : ascii) : re :=
  let n := N_of_ascii c in Cls [(n, n); (n - 32, n - 32)]%N.        (* a lower-case letter in either case *)
Fixpoint ci_word (s : string) : re := match s with EmptyString => Eps | String c r => Cat (ci c) (ci_word r) end.
Definition expo : re := Cat (Cls [(69, 69); (101, 101)]%N) (Cat sign_opt digits_u).
Definition re_py_float : re :=
  Cat (Star ws) (Cat sign_opt (Cat
    (Alt (Alt (Cat digits_u (Cat (Opt (Cat (Chr ".") (Opt digits_u))) (Opt expo)))
              (Cat (Chr ".") (Cat digits_u (Opt expo))))
         (Alt (ci_word "inf") (Alt (ci_word "infinity") (ci_word "nan"))))
    (Star ws))).

Fixpoint strip_loose (s : string) : string :=
  match s with
  | EmptyString => EmptyString
  | String c r => let n := nat_of_ascii c in
                  if ((9 <=? n)%nat && (n <=? 13)%nat) || ((28 <=? n)%nat && (n <=? 32)%nat) || Ascii.eqb c "_"
                  then strip_loose r else String c (strip_loose r)
  end.

(* the value int() returns for a text it accepts *)
Definition py_int_loose (s : string) : option Z := if matches re_py_int s then py_int_core (strip_loose s) else None.

Definition unsafe_accepts_module (md : string) (s : string) : res unit :=
  let int_ok := if matches re_py_int s then Ok tt else Err (G EFormat) in
  if String.eqb md "integer" || String.eqb md "position_gfa1" then int_ok
  else if String.eqb md "optional_integer" then (if String.eqb s "*" then Ok tt else int_ok)
  else if String.eqb md "float" then (if matches re_py_float s then Ok tt else Err (G EFormat))
  else if String.eqb md "char" then (if m re_field_char_validate_encoded s then Ok tt else Err (G EFormat))
  else if String.eqb md "oriented_identifier_gfa2" then (if String.eqb s "" then Err (G EFormat) else Ok tt)
  else if String.eqb md "oriented_identifier_list_gfa1" then
    (if forallb (fun e => negb (String.eqb e "")) (split_on comma s) then Ok tt else Err (G EFormat))
  else if String.eqb md "oriented_identifier_list_gfa2" then
    (if forallb (fun e => negb (String.eqb e "")) (split_on space s) then Ok tt else Err (G EFormat))
  else if String.eqb md "position_gfa2" then
    match last_char s with
    | None => Err (G EFormat)
    | Some c =>
        let t := if Ascii.eqb c "$" then drop_last s else s in
        match py_int_loose t with
        | None => Err (G EFormat)
        | Some z => if Z.ltb z 0 then Err (G EValue) else Ok tt
        end
    end
  else Ok tt.

(* ---------- what the writer prints for an accepted field (encode (decode s)) ---------- *)
Definition canon_int (s : string) : string := match py_int s with Some z => str_of_Z z | None => s end.

Definition canon_pos2 (s : string) : string :=
  match last_char s with
  | Some "$"%char => canon_int (drop_last s) ++ "$"
  | _ => canon_int s
  end.

Definition canon_alignment (v s : string) : string :=
  match parse_alignment v s with Ok a => alignment_to_string a | Err _ => s end.

Definition canon_module (O : oracle) (md : string) (s : string) : string :=
  if String.eqb md "integer" || String.eqb md "position_gfa1" then canon_int s
  else if String.eqb md "optional_integer" then (if String.eqb s "*" then s else canon_int s)
  else if String.eqb md "position_gfa2" then canon_pos2 s
  else if String.eqb md "float" then fcanon O s
  else if String.eqb md "json" then match jcanon O s with Some t => t | None => s end
  else if String.eqb md "numeric_array" then
    match na_parse s with
    | Ok (st, elems) => match na_canon O st elems with Ok t => t | Err _ => s end
    | Err _ => s
    end
  else if String.eqb md "alignment_gfa1" then canon_alignment "gfa1" s
  else if String.eqb md "alignment_gfa2" then canon_alignment "gfa2" s
  else if String.eqb md "alignment_list_gfa1" then
    join_with "," (map (canon_alignment "gfa1") (split_on comma s))
  else s.

Definition canon (O : oracle) (dt : string) (s : string) : string :=
  match module_of dt with Some md => canon_module O md s | None => s end.

(* oracle built from a finite table (used when the model is run on concrete cases) *)
Definition table_oracle (ft : list (string * string)) (jt : list (string * option string)) : oracle :=
  mkOracle (fun s => match assoc s ft with Some t => t | None => s end)
           (fun s => match assoc s jt with Some t => t | None => None end).
