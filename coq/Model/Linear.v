(* Model/Linear.v — linear paths (graph_operations/linear_paths.py) on the reference semantics of the graph:
   detection of the chains (linear_path, linear_paths, __traverse_linear_path) and the merged segment of a chain
   (__create_merged_segment/_add_segment_to_merged: name, spelled sequence, LN).  The complement table is the
   regenerated gfapy.sequence.WCC. *)
From Coq Require Import List String Ascii ZArith Bool.
From GfaV Require Import Base.Py Gen.Tables Model.Align Model.Codec Model.Graph Model.Topology.
Import ListNotations.
Open Scope string_scope.
Open Scope list_scope.

Definition send := (string * string)%type.            (* segment name, end type L/R *)
Definition send_eqb (a b : send) : bool := String.eqb (fst a) (fst b) && String.eqb (snd a) (snd b).
Definition inv_e (e : string) : string := if String.eqb e "L" then "R" else "L".
Definition inv_end (x : send) : send := (fst x, inv_e (snd x)).

Definition dov (s : gfa) (n e : string) : list gl := backrefs s n ("dovetails_" ++ e).

(* the two segment ends a dovetail joins, from-side first *)
Definition link_ends (l : gl) : list send :=
  flat_map (fun m => if String.eqb (substring 0 10 (m_coll m)) "dovetails_"
                     then [(m_target m, substring 10 1 (m_coll m))] else []) (mentions l).

Definition other_end (l : gl) (x : send) : send :=
  match link_ends l with
  | [a; b] => if send_eqb a x then b else a
  | _ => x
  end.

Definition add_name (n : string) (l : list string) : list string := if in_strs n l then l else n :: l.

(* __traverse_linear_path; the fuel bounds the number of segments visited (each visit excludes a new segment) *)
Fixpoint traverse (fuel : nat) (s : gfa) (cur : send) (lst : list send) (excl : list string)
  : res (list send * list string) :=
  match fuel with
  | O => Err (Foreign RecursionError)
  | S f =>
      let after := dov s (fst cur) (snd cur) in
      let before := dov s (fst cur) (inv_e (snd cur)) in
      if (Nat.eqb (List.length before) 1 && Nat.eqb (List.length after) 1) || (match lst with [] => true | _ => false end) then
        let lst' := lst ++ [cur] in
        let excl' := add_name (fst cur) excl in
        match after with
        | [] => Err (Foreign IndexError)
        | l :: _ =>
            let nxt := inv_end (other_end l cur) in
            if in_strs (fst nxt) excl' then Ok (lst', excl') else traverse f s nxt lst' excl'
        end
      else if Nat.eqb (List.length before) 1 then Ok (lst ++ [cur], add_name (fst cur) excl)
      else Ok (lst, excl)
  end.

Definition traverse_from (s : gfa) (x : send) (excl : list string) : res (list send * list string) :=
  do r <- traverse (S (List.length (lines s))) s x [] excl ;;
  Ok (if String.eqb (snd x) "L" then map inv_end (rev (fst r)) else fst r, snd r).   (* reversed() of a SegmentEndsPath inverts every end *)

(* linear_path(segment, exclude) *)
Definition linear_path (s : gfa) (n : string) (excl : list string) : res (list send * list string) :=
  let nl := List.length (dov s n "L") in
  let nr := List.length (dov s n "R") in
  do st1 <- (if Nat.eqb nl 1 then
               do r <- traverse_from s (n, "L") (add_name n excl) ;; Ok r
             else Ok ([], excl)) ;;
  if Nat.eqb nr 1 then
    let '(p1, ex1) := st1 in
    do r <- traverse_from s (n, "R") (add_name n ex1) ;;
    Ok (removelast p1 ++ fst r, snd r)
  else Ok st1.

(* linear_paths(): every segment not yet assigned starts a search; paths of at least two segment ends are kept *)
Definition linear_paths (s : gfa) : res (list (list send)) :=
  do r <- fold_left (fun acc n =>
             do a <- acc ;;
             let '(paths, excl) := a in
             if in_strs n excl then Ok a
             else do lp <- linear_path s n excl ;;
                  Ok (if Nat.ltb 1 (List.length (fst lp)) then paths ++ [fst lp] else paths, snd lp))
          (segment_names s) (Ok ([], [])) ;;
  Ok (fst r).

(* ---------- the merged segment ---------- *)
Definition wcc (c : ascii) : option string :=
  match find (fun p => String.eqb (fst p) (String c EmptyString)) T_WCC with
  | Some p => if String.eqb (snd p) "" then None else Some (snd p)
  | None => None
  end.

Fixpoint rc_acc (s : string) (acc : string) : res string :=
  match s with
  | EmptyString => Ok acc
  | String c r => match wcc c with Some w => rc_acc r (w ++ acc)%string | None => Err (G EValue) end
  end.

Definition rc (s : string) : res string := if String.eqb s "*" then Ok s else rc_acc s "".

Definition drop (n : nat) (s : string) : string := substring n (String.length s - n) s.

Definition seq_of (l : gl) : string := nth_s 1 (g_pos l).
Definition ln_of (l : gl) : option Z :=
  match find (fun t => String.eqb (substring 0 5 t) "LN:i:") (g_tags l) with
  | Some t => py_int (substring 5 (String.length t - 5) t)
  | None => None
  end.

(* segment.LN of a GFA1 segment: the tag, else the length of the sequence, else None *)
Definition length_of (l : gl) : option Z :=
  match ln_of l with
  | Some z => Some z
  | None => if String.eqb (seq_of l) "*" then None else Some (Z.of_nat (String.length (seq_of l)))
  end.

(* the single dovetail from end a to end b (end_relations) and its cut: 0 for a placeholder, the summed lengths of
   a match-only CIGAR otherwise *)
Definition links_between (s : gfa) (a b : send) : list gl :=
  filter (fun l => send_eqb (other_end l a) b) (dov s (fst a) (snd a)).

Definition cut_of (l : gl) : res nat :=
  let ov := nth_s 4 (g_pos l) in
  if String.eqb ov "*" then Ok O else
  let ops := cigar_of_string ov in
  if forallb (fun o => String.eqb (snd o) "M" || String.eqb (snd o) "=") ops
  then Ok (fold_left (fun a o => (a + Z.to_nat (fst o))%nat) ops O)
  else Err (G EValue).

Record merged := mkMerged { m_names : list string; m_seq : option (list string); m_ln : option Z }.

Definition oriented_seq (l : gl) (reversed : bool) (cut : nat) : res string :=
  if reversed then (do r <- rc (seq_of l) ;; Ok (if String.eqb r "*" then r else drop cut r))
  else Ok (if String.eqb (seq_of l) "*" then "*" else drop cut (seq_of l)).

(* __create_merged_segment over a path of segment ends (GFA1, no tracking, default naming) *)
Fixpoint merge_rest (s : gfa) (a : send) (rest : list send) (m : merged) : res merged :=
  match rest with
  | [] => Ok m
  | nb :: more =>
      let b := inv_end nb in
      match links_between s a b with
      | [l] =>
          do cut <- cut_of l ;;
          match find_segment s (fst b) with
          | None => Err (Foreign AttributeError)
          | Some sb =>
              let reversed := String.eqb (snd b) "R" in
              do os <- oriented_seq sb reversed cut ;;
              let sq := if String.eqb (seq_of sb) "*" then None
                        else match m_seq m with Some parts => Some (parts ++ [os]) | None => None end in
              (* merged.LN: the LN tags only (`if merged.LN: if segment.LN: += else None`); a member without the tag drops it *)
              let ln := match m_ln m, ln_of sb with
                        | Some z, Some y => if Z.eqb z 0 then None else Some (z + y - Z.of_nat cut)%Z
                        | _, _ => None
                        end in
              merge_rest s (inv_end b) more (mkMerged (m_names m ++ [fst b]) sq ln)
          end
      | _ => Err (G EValue)
      end
  end.

Definition merged_segment (s : gfa) (path : list send) : res (string * string * option Z) :=
  match path with
  | [] => Err (Foreign IndexError)
  | a :: rest =>
      match find_segment s (fst a) with
      | None => Err (Foreign AttributeError)
      | Some sa =>
          do os <- oriented_seq sa (String.eqb (snd a) "L") O ;;
          do m <- merge_rest s a rest (mkMerged [fst a] (if String.eqb (seq_of sa) "*" then None else Some [os]) (ln_of sa)) ;;
          let name := join_with "_" (m_names m) in
          match m_seq m with
          | None => Ok (name, "*", m_ln m)
          | Some parts =>
              let sq := String.concat "" parts in
              match m_ln m with
              | None => Ok (name, sq, Some (Z.of_nat (String.length sq)))
              | Some z => if andb (Nat.ltb 0 (g_vlevel s)) (negb (Z.eqb z (Z.of_nat (String.length sq))))
                          then Err (G EInconsistency) else Ok (name, sq, Some z)
              end
          end
      end
  end.

(* ---------- merging a path into the graph (merge_linear_path, GFA1, no redundant junctions, no tracking) ---------- *)
Definition tag_is (n : string) (t : string) : bool := String.eqb (substring 0 2 t) n.

Definition remove_tag (n : string) (tags : list string) : list string := filter (fun t => negb (tag_is n t)) tags.

(* line.set(name, value): an existing tag keeps its place, a new one is appended *)
Definition set_tag (n : string) (text : string) (tags : list string) : list string :=
  if existsb (tag_is n) tags then map (fun t => if tag_is n t then text else t) tags else tags ++ [text].

Definition has_tag_named (n : string) (l : gl) : bool := existsb (tag_is n) (g_tags l).

(* the LN tag while the members are appended: it survives as long as every member has one *)
Fixpoint running_ln (s : gfa) (a : send) (rest : list send) (ln : option Z) : res (option Z) :=
  match rest with
  | [] => Ok ln
  | nb :: more =>
      let b := inv_end nb in
      match links_between s a b with
      | [l] =>
          do cut <- cut_of l ;;
          match find_segment s (fst b) with
          | None => Err (Foreign AttributeError)
          | Some sb =>
              let ln' := match ln, ln_of sb with
                         | Some z, Some y => if Z.eqb z 0 then None else Some (z + y - Z.of_nat cut)%Z
                         | _, _ => None
                         end in
              running_ln s (inv_end b) more ln'
          end
      | _ => Err (G EValue)
      end
  end.

Definition merged_line (s : gfa) (path : list send) : res gl :=
  match path with
  | [] => Err (Foreign IndexError)
  | a :: rest =>
      match find_segment s (fst a) with
      | None => Err (Foreign AttributeError)
      | Some sa =>
          do m <- merged_segment s path ;;
          let '(name, sq, _) := m in
          do ln <- running_ln s a rest (match ln_of sa with Some z => if Z.eqb z 0 then None else Some z | None => None end) ;;
          let tags0 := remove_tag "jn" (g_tags sa) in
          (* the LN tag: kept in place while it survives, otherwise dropped; set from the sequence at the end if missing *)
          let tags1 := match ln with
                       | Some z => set_tag "LN" ("LN:i:" ++ str_of_Z z) tags0
                       | None => remove_tag "LN" tags0
                       end in
          let ln2 := match ln with
                     | Some z => Some z
                     | None => if String.eqb sq "*" then None else Some (Z.of_nat (String.length sq))
                     end in
          let tags2 := match ln, ln2 with
                       | None, Some z => set_tag "LN" ("LN:i:" ++ str_of_Z z) tags1
                       | _, _ => tags1
                       end in
          (* counts: removed when the merged segment has a length; otherwise every count tag met on a member is set to 0 *)
          let members := flat_map (fun x => match find_segment s (fst x) with Some l => [l] | None => [] end) path in
          let tags3 := match ln2 with
                       | Some _ => remove_tag "FC" (remove_tag "RC" (remove_tag "KC" tags2))
                       | None => fold_left (fun acc n => if existsb (has_tag_named n) members then set_tag n (n ++ ":i:0") acc else acc)
                                           ["KC"; "RC"; "FC"] tags2
                       end in
          Ok (mkGl 0 KS1 [name; sq] tags3 false)
      end
  end.

(* __link_merged: the dovetails of a chain end are re-created on the merged segment (orientation inverted when the
   member was traversed in reverse); a link with both ends on that end moves with both *)
Definition relink (name : string) (x : send) (reversed : bool) (l : gl) : gl :=
  let p := g_pos l in
  let ends := link_ends l in
  let flip o := if reversed then (if String.eqb o "+" then "-" else "+") else o in
  let is_to := String.eqb (nth_s 2 p) (fst x) in
  let both := match ends with [e1; e2] => send_eqb e1 e2 | _ => false end in
  let p1 := if is_to then [nth_s 0 p; nth_s 1 p; name; flip (nth_s 3 p)] ++ skipn 4 p else p in
  let p2 := if negb is_to || both then [name; flip (nth_s 1 p1)] ++ skipn 2 p1 else p1 in
  mkGl 0 KL p2 (g_tags l) false.

Fixpoint dedup_gl (l : list gl) (seen : list nat) : list gl :=
  match l with
  | [] => []
  | x :: r => if mem_id (g_id x) seen then dedup_gl r seen else x :: dedup_gl r (g_id x :: seen)
  end.

Definition link_merged (s : gfa) (name : string) (x : send) (reversed : bool) : res gfa :=
  let old := dedup_gl (dov s (fst x) (snd x)) [] in
  let new := map (relink name x reversed) old in
  do s1 <- fold_left (fun acc l => do a <- acc ;;
                                   match find (fun y => Nat.eqb (g_id y) (g_id l)) (lines a) with
                                   | Some y => disconnect a y
                                   | None => Ok a
                                   end) old (Ok s) ;;
  fold_left (fun acc l => do a <- acc ;; connect a l) new (Ok s1).

Definition merge_path (s : gfa) (path : list send) : res gfa :=
  match path, rev path with
  | first :: _ :: _, last :: _ =>
      do m <- merged_line s path ;;
      do s1 <- connect s m ;;
      let name := nth_s 0 (g_pos m) in
      do s2 <- link_merged s1 name (inv_end first) (String.eqb (snd first) "L") ;;
      do s3 <- link_merged s2 name last (String.eqb (snd last) "L") ;;
      fold_left (fun acc x => do a <- acc ;;
                              match find_segment a (fst x) with
                              | Some l => disconnect a l
                              | None => Ok a
                              end) path (Ok s3)
  | _, _ => Ok s
  end.

Definition merge_paths (s : gfa) (paths : list (list send)) : res gfa :=
  fold_left (fun acc p => do a <- acc ;; merge_path a p) paths (Ok s).
