(* Model/Multiply.v — segment multiplication on the reference semantics of the graph
   (graph_operations/multiplication.py: multiply, _compute_copy_names, __divide_counts,
   __clone_segment_and_connections, _distribute_links; _auto_select_distribute_end is the GENERATED kernel).
   GFA1 graphs (GFA2 edges with identifiers cannot be cloned: known finding F20; self-links: F19). *)
From Coq Require Import List String Ascii ZArith Bool.
From GfaV Require Import Base.Py Gen.Tables Gen.K_mult Gen.K_fromto Model.Align Model.Link Model.Codec Model.Line Model.Graph.
Import ListNotations.
Open Scope string_scope.
Open Scope list_scope.

Definition count_tags : list string := ["KC"; "RC"; "FC"].

(* gfa_line.set(tag, gfa_line.get(tag) // factor) for the count tags present *)
Definition div_tag (k : Z) (t : string) : string :=
  if in_strs (substring 0 2 t) count_tags && String.eqb (substring 2 3 t) ":i:" then
    match py_int (substring 5 (String.length t - 5) t) with
    | Some v => (substring 0 5 t ++ str_of_Z (Z.div v k))%string
    | None => t
    end
  else t.

Definition div_counts (k : Z) (l : gl) : gl :=
  mkGl (g_id l) (g_rk l) (g_pos l) (map (div_tag k) (g_tags l)) (g_virtual l).

(* the dovetails and containments of a segment, in the order segment.dovetails + segment.containments *)
Definition seg_edges (s : gfa) (n : string) : list gl :=
  backrefs s n "dovetails_L" ++ backrefs s n "dovetails_R" ++
  backrefs s n "edges_to_contained" ++ backrefs s n "edges_to_containers".

Definition is_self_edge (l : gl) : bool := String.eqb (nth_s 0 (g_pos l)) (nth_s 2 (g_pos l)).

(* _compute_copy_names: base*2, base*3, ... skipping identifiers in use (fuel: one skip per identifier in use) *)
Definition star : ascii := "*"%char.

Fixpoint next_free (fuel : nat) (used : list string) (base : string) (i : Z) : option Z :=
  match fuel with
  | O => None
  | S f => if in_strs (base ++ "*" ++ str_of_Z i)%string used then next_free f used base (i + 1)%Z else Some i
  end.

Fixpoint copy_names_from (n : nat) (used : list string) (base : string) (i : Z) : option (list string) :=
  match n with
  | O => Some []
  | S m => match next_free (S (List.length used)) used base i with
           | None => None
           | Some j => match copy_names_from m used base (j + 1)%Z with
                       | Some r => Some ((base ++ "*" ++ str_of_Z j)%string :: r)
                       | None => None
                       end
           end
  end.

(* the base name: a trailing *<digits> is stripped (the search is greedy: the last star followed by digits) *)
Fixpoint all_digits (s : string) : bool :=
  match s with EmptyString => true | String c r => is_digit c && all_digits r end.

Fixpoint strip_suffix (s : string) : option string :=
  match s with
  | EmptyString => None
  | String c r =>
      match strip_suffix r with
      | Some b => Some (String c b)
      | None => if Ascii.eqb c star && negb (String.eqb r "") && is_digit (match r with String d _ => d | _ => "x"%char end)
                then Some EmptyString else None
      end
  end.

Definition copy_base (n : string) : string := match strip_suffix n with Some b => b | None => n end.

Definition used_names (s : gfa) : list string :=
  flat_map (fun l => match name_of l with Some n => [n] | None => [] end) (lines s).

Definition compute_copy_names (s : gfa) (n : string) (factor : Z) : option (list string) :=
  copy_names_from (Z.to_nat (factor - 1)) (used_names s) (copy_base n) 2.

(* one copy: the segment under the new name and every edge with the name substituted *)
Definition rename_edge (old new : string) (l : gl) : gl :=
  let p := g_pos l in
  let f x := if String.eqb x old then new else x in
  mkGl (g_id l) (g_rk l) ([f (nth_s 0 p); nth_s 1 p; f (nth_s 2 p); nth_s 3 p] ++ skipn 4 p) (g_tags l) (g_virtual l).

Definition clone_into (seg : gl) (edges : list gl) (r : res gfa) (cn : string) : res gfa :=
  do s <- r ;;
  do s1 <- connect s (mkGl 0 (g_rk seg) (cn :: skipn 1 (g_pos seg)) (g_tags seg) false) ;;
  fold_left (fun acc e => do a <- acc ;; connect a (rename_edge (nth_s 0 (g_pos seg)) cn e)) edges (Ok s1).

(* the other end of a dovetail seen from segment end (n, e) *)
Definition other_end (l : gl) (n e : string) : string * string :=
  let p := g_pos l in
  let fe := k_from_end (nth_s 0 p) (nth_s 1 p) in
  let te := k_to_end (nth_s 2 p) (nth_s 3 p) in
  if String.eqb (fst fe) n && String.eqb (snd fe) e then te else fe.

Definition sig_eqb (a b : string * string) : bool := String.eqb (fst a) (fst b) && String.eqb (snd a) (snd b).

Definition slice {A} (l : list A) (from len : nat) : list A := firstn len (skipn from l).

(* _distribute_links: copy number i keeps the links towards the signatures i .. i+diff of the original's list *)
Definition distribute (s : gfa) (e : string) (n : string) (copies : list string) (factor : Z) : res gfa :=
  let coll := ("dovetails_" ++ e)%string in
  let sigs := map (fun l => other_end l n e) (backrefs s n coll) in
  let diff := Nat.sub (List.length sigs) (Z.to_nat factor) in
  fold_left (fun acc ix =>
               do a <- acc ;;
               let '(i, sn) := ix in
               let keep := slice sigs i (S diff) in
               fold_left (fun acc2 l =>
                            do b <- acc2 ;;
                            if existsb (sig_eqb (other_end l sn e)) keep then Ok b
                            else match find (fun x => Nat.eqb (g_id x) (g_id l)) (lines b) with
                                 | Some x => disconnect b x
                                 | None => Ok b
                                 end)
                         (backrefs a sn coll) (Ok a))
            (combine (seq 0 (S (List.length copies))) (n :: copies)) (Ok s).

Definition select_end (s : gfa) (policy : string) (n : string) (factor : Z) : res (option string) :=
  if negb (in_strs policy T_LINKS_DISTRIBUTION_POLICY) then Err (G EArgument)
  else if String.eqb policy "off" then Ok None
  else if String.eqb policy "L" || String.eqb policy "R" then Ok (Some policy)
  else Ok (k_auto_select_distribute_end factor (Z.of_nat (List.length (backrefs s n "dovetails_L")))
                                        (Z.of_nat (List.length (backrefs s n "dovetails_R")))
                                        (String.eqb policy "equal")).

(* Gfa.multiply(name, factor, copy_names, distribute) *)
Definition multiply (s : gfa) (n : string) (factor : Z) (names : option (list string)) (policy : option string) : res gfa :=
  if Z.ltb factor 0 then Err (G EArgument)
  else if Z.eqb factor 0 then rm s n
  else if Z.eqb factor 1 then Ok s
  else
    match find_segment s n with
    | None => Err (Foreign AttributeError)
    | Some seg0 =>
        (* 1. counts of the segment and of its edges are divided *)
        let edge_ids := map g_id (seg_edges s n) in
        let s1 := mkGfa (map (fun l => if Nat.eqb (g_id l) (g_id seg0) || mem_id (g_id l) edge_ids then div_counts factor l else l)
                             (lines s)) (next_id s) (g_version s) (g_vlevel s) in
        match find_segment s1 n with
        | None => Err (Foreign AttributeError)
        | Some seg =>
            do cns <- match names with
                      | Some l => Ok l
                      | None => match compute_copy_names s1 n factor with Some l => Ok l | None => Err (Foreign RecursionError) end
                      end ;;
            do s2 <- fold_left (clone_into seg (seg_edges s1 n)) cns (Ok s1) ;;
            match policy with
            | None => Ok s2
            | Some p =>
                do e <- select_end s2 p n factor ;;
                match e with
                | None => Ok s2
                | Some e => distribute s2 e n cns factor
                end
            end
        end
    end.
