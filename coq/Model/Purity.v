(* Model/Purity.v — the part of a read that is not a pure function in gfapy: lazy decoding (FieldData.get replaces the
   stored string of a field whose datatype is parsed on access by the decoded object, and the object is written back
   with its canonical spelling).  Everything else a query computes is a function of the stored cells. *)
From Coq Require Import List String Ascii ZArith Bool.
From GfaV Require Import Base.Py Base.Regex Gen.Tables Model.Codec.
Import ListNotations.
Open Scope string_scope.
Open Scope list_scope.

(* Construction.DELAYED_PARSING_DATATYPES, regenerated *)
Definition delayed : list string := T_DELAYED_PARSING_DATATYPES.

(* a stored field: what is written before its value (nothing, or name:type:), its datatype, its text, and whether the
   stored object is the decoded value *)
Record cell := mkCell { c_prefix : string; c_dt : string; c_text : string; c_decoded : bool }.
Definition pline := list cell.
Definition doc := list pline.

(* Construction._init_field_value *)
Definition init_cell (O : oracle) (vlevel : nat) (prefix dt text : string) : cell :=
  if Nat.leb 1 vlevel || negb (in_strs dt delayed) then mkCell prefix dt (canon O dt text) true
  else mkCell prefix dt text false.

Definition write_cell (c : cell) : string := (c_prefix c ++ c_text c)%string.
Definition write_line (l : pline) : string := join_with (String tab EmptyString) (map write_cell l).
Definition write_doc (d : doc) : string := join_with (String nl EmptyString) (map write_line d).

(* FieldData.get: Z and seq stay strings; other strings are decoded and the decoded value is stored *)
Definition get_cell (O : oracle) (c : cell) : cell * string :=
  if c_decoded c || String.eqb (c_dt c) "Z" || String.eqb (c_dt c) "seq" then (c, c_text c)
  else let t := canon O (c_dt c) (c_text c) in (mkCell (c_prefix c) (c_dt c) t true, t).

Fixpoint update {A} (l : list A) (i : nat) (f : A -> A) : list A :=
  match l, i with
  | [], _ => []
  | x :: r, O => f x :: r
  | x :: r, S j => x :: update r j f
  end.

(* read-only calls: reading field j of line i; anything that only looks at the written forms *)
Inductive query := QGet (i j : nat) | QStr (i : nat) | QDoc.

Definition answer (O : oracle) (d : doc) (q : query) : string :=
  match q with
  | QGet i j => match nth_error d i with
                | Some l => match nth_error l j with Some c => snd (get_cell O c) | None => "" end
                | None => ""
                end
  | QStr i => match nth_error d i with Some l => write_line l | None => "" end
  | QDoc => write_doc d
  end.

Definition step (O : oracle) (d : doc) (q : query) : doc :=
  match q with
  | QGet i j => update d i (fun l => update l j (fun c => fst (get_cell O c)))
  | _ => d
  end.

Definition run (O : oracle) (d : doc) (qs : list query) : doc := fold_left (step O) qs d.

(* a stored field is settled when it holds a decoded value (or a plain string) or its text is the canonical spelling *)
Definition canonical_cell (O : oracle) (c : cell) : Prop :=
  c_decoded c || String.eqb (c_dt c) "Z" || String.eqb (c_dt c) "seq" = true \/ canon O (c_dt c) (c_text c) = c_text c.
Definition canonical (O : oracle) (d : doc) : Prop := forall l, In l d -> forall c, In c l -> canonical_cell O c.
