(* Model/Link.v — GFA1 link as a value: complement (link/complement.py), equivalence and
   compatibility tests (link/equivalence.py).  Segment ends come from the generated kernels
   k_from_end / k_to_end; orientation inversion is the generated k_invert. *)
From Coq Require Import List String Ascii ZArith Bool.
From GfaV Require Import Base.Py Gen.Tables Gen.K_cigar Gen.K_fromto Model.Align.
Import ListNotations.

Record link := mkLink {
  l_from : string; l_fo : string; l_to : string; l_too : string; l_ov : alignment }.

Definition segend := (string * string)%type.
Definition segend_eqb (a b : segend) : bool := String.eqb (fst a) (fst b) && String.eqb (snd a) (snd b).
Definition oseg := (string * string)%type.         (* OrientedLine: name, orientation *)
Definition oseg_eqb (a b : oseg) : bool := String.eqb (fst a) (fst b) && String.eqb (snd a) (snd b).

Definition from_end (l : link) : segend := k_from_end (l_from l) (l_fo l).
Definition to_end (l : link) : segend := k_to_end (l_to l) (l_too l).
Definition oriented_from (l : link) : oseg := (l_from l, l_fo l).
Definition oriented_to (l : link) : oseg := (l_to l, l_too l).

(* Complement.complement: clone, swap the segments, invert both orientations (gfapy.invert
   raises ValueError on anything but + - L R), complement the overlap *)
Definition link_complement (l : link) : res link :=
  do fo' <- k_invert (l_too l) ;;
  do to' <- k_invert (l_fo l) ;;
  Ok (mkLink (l_to l) fo' (l_from l) to' (aln_complement (l_ov l))).

Definition is_same (a b : link) : bool :=
  segend_eqb (from_end a) (from_end b) && segend_eqb (to_end a) (to_end b) && aln_eqb (l_ov a) (l_ov b).

Definition is_complement (a b : link) : bool :=
  segend_eqb (from_end a) (to_end b) && segend_eqb (to_end a) (from_end b)
  && aln_eqb (l_ov a) (aln_complement (l_ov b)).

Definition is_eql (a b : link) : bool := is_same a b || is_complement a b.

(* OrientedLine.inverted() -> gfapy.invert(orient) *)
Definition oseg_inverted (o : oseg) : res oseg := do x <- k_invert (snd o) ;; Ok (fst o, x).

Definition is_compatible_direct (l : link) (ofrom oto : oseg) (ov : alignment) : bool :=
  (oseg_eqb (oriented_from l) ofrom && oseg_eqb (oriented_to l) oto)
  && (negb (aln_truthy (l_ov l)) || negb (aln_truthy ov) || aln_eqb (l_ov l) ov).

(* `a and b and (c)` evaluates other_oriented_from.inverted() first: a bad orientation raises *)
Definition is_compatible_complement (l : link) (ofrom oto : oseg) (ov : alignment) : res bool :=
  do fi <- oseg_inverted ofrom ;;
  if negb (oseg_eqb (oriented_to l) fi) then Ok false else
  do ti <- oseg_inverted oto ;;
  if negb (oseg_eqb (oriented_from l) ti) then Ok false else
  Ok (negb (aln_truthy (l_ov l)) || negb (aln_truthy ov) || aln_eqb (l_ov l) (aln_complement ov)).

Definition is_compatible (l : link) (ofrom oto : oseg) (ov : alignment) (allow_complement : bool) : res bool :=
  if is_compatible_direct l ofrom oto ov then Ok true
  else if allow_complement then is_compatible_complement l ofrom oto ov
  else Ok false.

Definition valid_orient (o : string) : bool := String.eqb o "+" || String.eqb o "-".
Definition link_wf (l : link) : bool :=
  valid_orient (l_fo l) && valid_orient (l_too l) && aln_codes_in involutive_codes (l_ov l).

(* same core content (everything the property calls "the edge" except tags) *)
Definition link_core_eqb (a b : link) : bool :=
  String.eqb (l_from a) (l_from b) && String.eqb (l_fo a) (l_fo b) &&
  String.eqb (l_to a) (l_to b) && String.eqb (l_too a) (l_too b) && aln_eqb (l_ov a) (l_ov b).
