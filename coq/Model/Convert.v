(* Model/Convert.v — GFA1 <-> GFA2 conversion of edge records as values.
   Hand model of line/edge/link/to_gfa2.py, containment/to_gfa2.py, gfa1/to_gfa2.py (_to_gfa2_a,
   _lastpos_of, _check_overlap), lastpos.py (LastPos.__sub__) and edge/gfa2/to_gfa1.py
   (_to_gfa1_a, overlap, pos); classification and roles are the GENERATED kernels. *)
From Coq Require Import List String Ascii ZArith Bool.
From GfaV Require Import Base.Py Gen.Tables Gen.K_cigar Gen.K_edge2 Gen.K_togfa1 Model.Align Model.Link.
Import ListNotations.
Open Scope string_scope.

Definition pos := (Z * bool)%type.

Record edge2 := mkE {
  e_id : option string; e_s1 : string; e_o1 : string; e_s2 : string; e_o2 : string;
  e_b1 : pos; e_e1 : pos; e_b2 : pos; e_e2 : pos; e_aln : alignment }.

Record cont := mkC {
  c_from : string; c_fo : string; c_to : string; c_too : string; c_pos : pos; c_ov : alignment }.

Inductive gfa1edge := GL (l : link) | GC (c : cont).

(* LastPos.__sub__: subtracting 0 keeps the $ marker, anything else yields a plain integer *)
Definition lastpos_sub (v o : Z) : pos := if Z.eqb o 0 then (v, true) else (Z.sub v o, false).

(* CIGAR.validate(version): every code must be allowed in the version (lengths are >= 0 by parsing) *)
Definition cigar_valid (version : string) (c : cigar) : bool :=
  forallb (fun op => Z.leb 0 (fst op) &&
                     in_strs (snd op) (if String.eqb version "gfa2" then T_CIGAR_CODE_GFA1_GFA2 else T_CIGAR_CODE)) c.

(* _check_overlap: a placeholder overlap has no coordinates *)
Definition check_overlap (a : alignment) : res cigar :=
  match a with
  | ACigar c => if is_nil c then Err (G EValue) else Ok c
  | _ => Err (G EValue)
  end.

(* _lastpos_of on a connected link: the segment must have a length *)
Definition lastpos_of (len : option Z) : res Z :=
  match len with Some v => Ok v | None => Err (G EValue) end.

Definition link_from_coords (fo : string) (lenf : option Z) (a : alignment) : res (pos * pos) :=
  do c <- check_overlap a ;;
  if String.eqb fo "+" then
    do lf <- lastpos_of lenf ;; Ok (lastpos_sub lf (k_cigar_length_on_reference c), (lf, true))
  else Ok ((0%Z, false), (k_cigar_length_on_reference c, false)).

Definition link_to_coords (too : string) (lent : option Z) (a : alignment) : res (pos * pos) :=
  do c <- check_overlap a ;;
  if String.eqb too "+" then Ok ((0%Z, false), (k_cigar_length_on_query c, false))
  else do lt <- lastpos_of lent ;; Ok (lastpos_sub lt (k_cigar_length_on_query c), (lt, true)).

Definition gfa2_overlap_ok (a : alignment) : bool :=
  match a with ACigar c => cigar_valid "gfa2" c | APlaceholder => true | ATrace _ => true end.

(* Link._to_gfa2_a (the ID has been assigned before: eid) *)
Definition link_to_gfa2 (l : link) (eid : option string) (lenf lent : option Z) : res edge2 :=
  do fc <- link_from_coords (l_fo l) lenf (l_ov l) ;;
  do tc <- link_to_coords (l_too l) lent (l_ov l) ;;
  if negb (gfa2_overlap_ok (l_ov l)) then Err (G ERuntime) else
  Ok (mkE eid (l_from l) (l_fo l) (l_to l) (l_too l) (fst fc) (snd fc) (fst tc) (snd tc) (l_ov l)).

(* Containment: from_coords = [pos, pos + reference length ($ when it reaches the end)], to = whole *)
Definition cont_from_coords (c : cont) (lenf : option Z) : res (pos * pos) :=
  do cg <- check_overlap (c_ov c) ;;
  let rpos := Z.add (fst (c_pos c)) (k_cigar_length_on_reference cg) in
  do lf <- lastpos_of lenf ;;
  Ok (c_pos c, (rpos, Z.eqb rpos lf)).

Definition cont_to_gfa2 (c : cont) (eid : option string) (lenf lent : option Z) : res edge2 :=
  do fc <- cont_from_coords c lenf ;;
  do lt <- lastpos_of lent ;;
  if negb (gfa2_overlap_ok (c_ov c)) then Err (G ERuntime) else
  Ok (mkE eid (c_from c) (c_fo c) (c_to c) (c_too c) (fst fc) (snd fc) (0%Z, false) (lt, true) (c_ov c)).

(* ---------- GFA2 -> GFA1 ---------- *)
Definition alignment_type (e : edge2) : res string :=
  do st1 <- k_substring_type (e_b1 e) (e_e1 e) ;;
  do st2 <- k_substring_type (e_b2 e) (e_e2 e) ;;
  Ok (k_alignment_type_for_substring_types (e_o1 e) (e_o2 e) (fst st1) (fst st2)).

Definition sid1_from (e : edge2) : res bool :=
  k_is_sid1_from (e_b1 e) (e_e1 e) (e_o1 e) (e_b2 e) (e_e2 e) (e_o2 e).

Definition isfirst (p : pos) : bool := Z.eqb (fst p) 0.

(* ToGFA1.pos for a containment *)
Definition edge_pos (e : edge2) : pos :=
  if isfirst (e_b1 e) then (if isfirst (e_b2 e) && snd (e_e2 e) then e_b1 e else e_b2 e) else e_b1 e.

Definition gfa1_overlap_ok (a : alignment) : bool :=
  match a with ACigar c => cigar_valid "gfa1" c | APlaceholder => true | ATrace _ => false end.

Definition edge_to_gfa1 (e : edge2) : res gfa1edge :=
  do at_ <- alignment_type e ;;
  if String.eqb at_ "I" then Err (G ERuntime) else
  do s1f <- sid1_from e ;;
  let '(f, fo, t, too) := if s1f then (e_s1 e, e_o1 e, e_s2 e, e_o2 e) else (e_s2 e, e_o2 e, e_s1 e, e_o1 e) in
  let ov := if s1f then e_aln e else aln_complement (e_aln e) in
  if negb (gfa1_overlap_ok ov) then Err (G ERuntime) else
  if String.eqb at_ "C" then Ok (GC (mkC f fo t too (edge_pos e) ov))
  else Ok (GL (mkLink f fo t too ov)).
