(* Model/Groups.v — GFA2 groups on the reference semantics of the graph:
   captured path of an ordered group (line/group/ordered/captured_path.py) and induced set of an unordered group
   (line/group/unordered/induced_set.py).  Paths are kept with the most recent element first. *)
From Coq Require Import List String Ascii ZArith Bool.
From GfaV Require Import Base.Py Gen.Tables Model.Codec Model.Graph.
Import ListNotations.
Open Scope string_scope.
Open Scope list_scope.

Definition oref := (string * string)%type.          (* identifier, orientation *)
Definition oref_eqb (a b : oref) : bool := String.eqb (fst a) (fst b) && String.eqb (snd a) (snd b).
Definition inv_o (o : string) : string := if String.eqb o "+" then "-" else "+".
Definition inv_ref (r : oref) : oref := (fst r, inv_o (snd r)).
Definition parse_oref (x : string) : oref := (oname x, oorient x).

(* an element of a captured path: an oriented segment, or an oriented edge given by the rank of its line *)
Inductive pel := PS (r : oref) | PE (id : nat) (o : string).

Definition inv_pel (p : pel) : pel := match p with PS r => PS (inv_ref r) | PE i o => PE i (inv_o o) end.

Definition edge_at (s : gfa) (id : nat) : option gl :=
  find (fun l => Nat.eqb (g_id l) id && rk_eqb (g_rk l) KE) (lines s).

(* sid1 and sid2 of an edge, both inverted when the edge is taken with orientation - *)
Definition edge_ends (l : gl) (o : string) : oref * oref :=
  let a := parse_oref (nth_s 1 (g_pos l)) in
  let b := parse_oref (nth_s 2 (g_pos l)) in
  if String.eqb o "-" then (inv_ref a, inv_ref b) else (a, b).

Definition joins (l : gl) (o : string) (x y : oref) : bool :=
  let '(a, b) := edge_ends l o in
  (oref_eqb a x && oref_eqb b y) || (oref_eqb a y && oref_eqb b x).

(* segment.edges = dovetails + containments + internals *)
Definition seg_edges2 (s : gfa) (n : string) : list gl :=
  filter (fun l => rk_eqb (g_rk l) KE)
         (backrefs s n "dovetails_L" ++ backrefs s n "dovetails_R" ++ backrefs s n "edges_to_contained" ++
          backrefs s n "edges_to_containers" ++ backrefs s n "internals").

(* _find_edge_from_path_to_segment: orientation + is tried first; an edge listed at both ends counts once *)
Definition fit (l : gl) (prev x : oref) : option string :=
  if joins l "+" x prev then Some "+" else if joins l "-" x prev then Some "-" else None.

Fixpoint fits (es : list gl) (seen : list nat) (prev x : oref) : list pel :=
  match es with
  | [] => []
  | e :: r =>
      if mem_id (g_id e) seen then fits r seen prev x
      else match fit e prev x with
           | Some o => PE (g_id e) o :: fits r (g_id e :: seen) prev x
           | None => fits r seen prev x
           end
  end.

(* _push_segment_on_se_path *)
Definition push_segment (s : gfa) (rp : list pel) (prev_edge : bool) (x : oref) : res (list pel) :=
  match rp with
  | [] => Ok [PS x]
  | PS y :: _ =>
      if prev_edge then (if oref_eqb y x then Ok rp else Err (G EInconsistency))
      else match fits (seg_edges2 s (fst x)) [] y x with
           | [] => Err (G ENotFound)
           | [e] => Ok (PS x :: e :: rp)
           | _ => Err (G ENotUnique)
           end
  | PE _ _ :: _ => Err (Foreign AttributeError)     (* _check_s_to_e_contiguity reads self.segment: never reached *)
  end.

(* _push_nonfirst_edge_on_se_path *)
Definition push_nonfirst_edge (rp : list pel) (l : gl) (o : string) : res (list pel) :=
  match rp with
  | PS y :: _ =>
      let '(a, b) := edge_ends l o in
      if oref_eqb y a then Ok (PS b :: PE (g_id l) o :: rp)
      else if oref_eqb y b then Ok (PS a :: PE (g_id l) o :: rp)
      else Err (G ENotFound)
  | _ => Err (G ENotFound)
  end.

Definition resolve (s : gfa) (n : string) : option gl := find_named s n.

(* _push_first_edge_on_se_path: the direction is chosen by looking at the second item only *)
Definition push_first_edge (rec : gl -> res (list pel * bool)) (s : gfa) (items : list oref) : res (list pel) :=
  match items with
  | [] => Err (Foreign IndexError)
  | it :: rest =>
      match resolve s (fst it) with
      | None => Err (G ERuntime)
      | Some l =>
          let '(a, b) := edge_ends l (snd it) in
          do swap <- match rest with
                     | [] => Ok false
                     | nx :: _ =>
                         match resolve s (fst nx) with
                         | None => Ok false
                         | Some ln =>
                             match g_rk ln with
                             | KS2 => Ok (oref_eqb nx a)
                             | KE => let '(c, d) := edge_ends ln (snd nx) in Ok (oref_eqb a c || oref_eqb a d)
                             | KO => do sub <- rec ln ;;
                                     match rev (fst sub) with
                                     | [] => Err (G EAssertion)
                                     | _ => let firstel := if String.eqb (snd nx) "+" then hd (PS a) (rev (fst sub))
                                                           else inv_pel (hd (PS a) (fst sub)) in
                                            Ok (match firstel with PS r => oref_eqb r a | PE _ _ => false end)
                                     end
                             | _ => Ok false
                             end
                         end
                     end ;;
          if swap then Ok [PS a; PE (g_id l) (snd it); PS b] else Ok [PS b; PE (g_id l) (snd it); PS a]
      end
  end.

(* an element of an inlined sub-path *)
Definition push_pel (s : gfa) (st : list pel * bool) (el : pel) : res (list pel * bool) :=
  let '(rp, pe) := st in
  match el with
  | PS r => do rp' <- push_segment s rp pe r ;; Ok (rp', false)
  | PE i o => match edge_at s i, rp with
              | Some l, _ :: _ => do rp' <- push_nonfirst_edge rp l o ;; Ok (rp', true)
              | _, _ => Err (G EAssertion)
              end
  end.

(* _push_item_on_se_path *)
Definition push_item (rec : gl -> res (list pel * bool)) (s : gfa) (items : list oref)
           (st : list pel * bool) (it : oref) : res (list pel * bool) :=
  let '(rp, pe) := st in
  match resolve s (fst it) with
  | None => Err (G ERuntime)
  | Some l =>
      match g_rk l with
      | KS2 => do rp' <- push_segment s rp pe it ;; Ok (rp', false)
      | KE => match rp with
              | [] => do rp' <- push_first_edge rec s items ;; Ok (rp', true)
              | _ => do rp' <- push_nonfirst_edge rp l (snd it) ;; Ok (rp', true)
              end
      | KO => do sub <- rec l ;;
              let '(sp, pe_sub) := sub in
              match sp with
              | [] => Err (G EAssertion)
              | _ => let seq := if String.eqb (snd it) "+" then rev sp else map inv_pel sp in
                     do st' <- fold_left (fun acc el => do a <- acc ;; push_pel s a el) seq (Ok (rp, pe)) ;;
                     Ok (fst st', pe_sub)
              end
      | KUnk => Err (G ERuntime)
      | _ => Err (G EType)
      end
  end.

Definition items_of (g : gl) : list oref := map parse_oref (split_on space (nth_s 1 (g_pos g))).

(* _compute_captured_path; nesting is bounded by the fuel, which exceeds the number of groups: only a group nested in itself
   exhausts it, and that is reported as an inconsistency (F77) *)
Fixpoint compute (fuel : nat) (s : gfa) (g : gl) : res (list pel * bool) :=
  match fuel with
  | O => Err (G EInconsistency)
  | S f => fold_left (fun acc it => do a <- acc ;; push_item (compute f s) s (items_of g) a it) (items_of g) (Ok ([], false))
  end.

Definition captured_path (s : gfa) (g : gl) : res (list pel) :=
  do r <- compute (S (List.length (lines s))) s g ;; Ok (rev (fst r)).

Definition captured_segments (s : gfa) (g : gl) : res (list oref) :=
  do p <- captured_path s g ;; Ok (flat_map (fun e => match e with PS r => [r] | _ => [] end) p).

(* ---------- induced sets ---------- *)
Fixpoint dedup (l : list string) (seen : list string) : list string :=
  match l with
  | [] => []
  | x :: r => if in_strs x seen then dedup r seen else x :: dedup r (x :: seen)
  end.

Definition names_of_items (g : gl) : list string := split_on space (nth_s 1 (g_pos g)).

Fixpoint induced_segments (fuel : nat) (s : gfa) (g : gl) : res (list string) :=
  match fuel with
  | O => Err (G EInconsistency)
  | S f =>
      do all <- fold_left (fun acc n =>
                  do a <- acc ;;
                  match resolve s n with
                  | None => Err (G ERuntime)
                  | Some l =>
                      match g_rk l with
                      | KS2 => Ok (a ++ [n])
                      | KE => Ok (a ++ [fst (parse_oref (nth_s 1 (g_pos l))); fst (parse_oref (nth_s 2 (g_pos l)))])
                      | KO => do p <- captured_segments s l ;; Ok (a ++ map fst p)
                      | KU => do sub <- induced_segments f s l ;; Ok (a ++ sub)
                      | KUnk => Err (G ERuntime)
                      | _ => Err (G EType)
                      end
                  end) (names_of_items g) (Ok []) ;;
      Ok (dedup all [])
  end.

Definition other_segment (e : gl) (n : string) : string :=
  let a := fst (parse_oref (nth_s 1 (g_pos e))) in
  let b := fst (parse_oref (nth_s 2 (g_pos e))) in
  if String.eqb n a then b else a.

Fixpoint dedup_ids (l : list gl) (seen : list nat) : list gl :=
  match l with
  | [] => []
  | x :: r => if mem_id (g_id x) seen then dedup_ids r seen else x :: dedup_ids r (g_id x :: seen)
  end.

(* _compute_induced_edges_set *)
Definition induced_edges (s : gfa) (segs : list string) : list gl :=
  dedup_ids (flat_map (fun n => filter (fun e => in_strs (other_segment e n) segs) (seg_edges2 s n)) segs) [].

Definition induced_set (s : gfa) (g : gl) : res (list string * list gl) :=
  do segs <- induced_segments (S (List.length (lines s))) s g ;;
  Ok (segs, induced_edges s segs).
