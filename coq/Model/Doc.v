(* Model/Doc.v — the text a Gfa writes for a valid document, as a pure function of the parsed lines
   (lines/collections.py:lines order, header/multiline.py merge and split, the complement-link merge of
   edge/link/references.py, the nested fragment and custom-record dictionaries of lines/creators.py).
   References are written as identifiers, so no object graph is needed for the text. *)
From Coq Require Import List String Ascii ZArith Bool.
From GfaV Require Import Base.Py Base.Regex Gen.Tables Model.Align Model.Link Model.Codec Model.Line.
Import ListNotations.
Open Scope string_scope.
Open Scope list_scope.

Definition is_class (n : string) (l : line) : bool := String.eqb (rc_name (ln_class l)) n.

(* ---- header: tags merged in arrival order, single-definition tags kept once, one H line per value ---- *)
Definition htag := (string * string * list string)%type.     (* name, datatype, values *)

Fixpoint hadd (O : oracle) (acc : list htag) (t : string * string * string) : list htag :=
  let '(n, dt, v) := t in
  match acc with
  | [] => [(n, dt, [v])]
  | (n', dt', vs) :: r =>
      if String.eqb n n' then
        (if in_strs n T_SINGLE_DEFINITION_TAGS then (n', dt', vs) :: r     (* equal by validity: ignored *)
         else (n', dt', vs ++ [v]) :: r)
      else (n', dt', vs) :: hadd O r t
  end.

Definition header_lines (O : oracle) (ls : list line) : list string :=
  let tags := flat_map ln_tags (filter (is_class "Header") ls) in
  let merged := fold_left (hadd O) tags [] in
  flat_map (fun h : htag => let '(n, dt, vs) := h in
            map (fun v => ("H" ++ String tab EmptyString ++ n ++ ":" ++ dt ++ ":" ++ canon O dt v)%string) vs) merged.

(* ---- links: a link that is the complement of a stored link adds nothing ---- *)
Definition link_of_line (l : line) : option link :=
  match map (fun f => snd f) (ln_pos l) with
  | [f; fo; t; too; ov] =>
      match parse_alignment "gfa1" ov with
      | Ok a => Some (mkLink f fo t too a)
      | Err _ => None
      end
  | _ => None
  end.

Fixpoint dedup_links (seen : list link) (ls : list line) : list line :=
  match ls with
  | [] => []
  | l :: r =>
      match link_of_line l with
      | Some k => if existsb (fun s => is_complement k s) seen then dedup_links seen r
                  else l :: dedup_links (seen ++ [k]) r
      | None => l :: dedup_links seen r
      end
  end.

(* ---- dictionaries keyed by a string, in first-appearance order of the key ---- *)
Fixpoint keys_in_order (key : line -> string) (ls : list line) (seen : list string) : list string :=
  match ls with
  | [] => []
  | l :: r => let k := key l in
              if in_strs k seen then keys_in_order key r seen else k :: keys_in_order key r (k :: seen)
  end.

Definition group_by (key : line -> string) (ls : list line) : list line :=
  flat_map (fun k => filter (fun l => String.eqb (key l) k) ls) (keys_in_order key ls []).

Definition external_name (l : line) : string :=
  match ln_pos l with
  | _ :: (_, _, ext) :: _ => drop_last ext
  | _ => ""
  end.

Definition custom_rt (l : line) : string :=
  match ln_pos l with (_, _, rt) :: _ => rt | [] => "" end.

(* Gfa.lines for a document of one version *)
Definition doc_lines (ls : list line) : list line :=
  filter (is_class "SegmentGFA1") ls ++ filter (is_class "SegmentGFA2") ls ++
  dedup_links [] (filter (is_class "Link") ls) ++ filter (is_class "Containment") ls ++
  filter (is_class "EdgeGFA2") ls ++ filter (is_class "Path") ls ++ filter (is_class "Ordered") ls ++
  filter (is_class "Unordered") ls ++ filter (is_class "Gap") ls ++
  group_by external_name (filter (is_class "Fragment") ls) ++
  group_by custom_rt (filter (is_class "CustomRecord") ls).

Definition doc_write (O : oracle) (ls : list line) : list string :=
  map (line_to_s O) (filter (is_class "Comment") ls) ++ header_lines O ls ++ map (line_to_s O) (doc_lines ls).

(* parse every line of a document whose version is known *)
Definition parse_doc (O : oracle) (vlevel : nat) (version : string) (text : list string) : res (list line) :=
  rmapM (fun s =>
           (* add_line: S lines are constructed without a version (their syntax decides), all others with it *)
           match s with
           | String "S" _ => parse_line O vlevel None s
           | _ => parse_line O vlevel (Some version) s
           end) text.
