(* Model/Graph.v — reference semantics of the Gfa object graph.
   The state is the list of lines a Gfa holds (real lines and the placeholders gfapy creates for identifiers that
   are mentioned before they are defined); references and back-references are not stored but DERIVED from the
   fields of the lines ([mentions], [backrefs]).  Operations are the public mutations: add a line, remove
   (with the removal cascade computed from the GENERATED dependency tables), rename.  The implementation's stored
   reference fields, back-reference collections, name registry and written text are compared with the values derived
   here after every operation of generated histories (harness/props/c02.py and friends).
   Covers: S L C P (GFA1), S E G F O U custom comments (GFA2); headers are part of C01. *)
From Coq Require Import List String Ascii ZArith Bool.
From GfaV Require Import Base.Py Base.Regex Gen.Tables Gen.Regexes Gen.K_cigar Gen.K_edge2 Gen.K_fromto
  Model.Align Model.Link Model.Codec Model.Line.
Import ListNotations.
Open Scope string_scope.
Open Scope list_scope.

Inductive rk := KS1 | KS2 | KL | KC | KP | KE | KGp | KF | KO | KU | KCom | KCus | KUnk | KHd.

Definition rk_eqb (a b : rk) : bool :=
  match a, b with
  | KS1, KS1 | KS2, KS2 | KL, KL | KC, KC | KP, KP | KE, KE | KGp, KGp | KF, KF | KO, KO | KU, KU
  | KCom, KCom | KCus, KCus | KUnk, KUnk | KHd, KHd => true
  | _, _ => false
  end.

(* a line of the graph: positional fields and tags as canonical text; identity [g_id] is the creation rank *)
Record gl := mkGl { g_id : nat; g_rk : rk; g_pos : list string; g_tags : list string; g_virtual : bool }.

Record gfa := mkGfa { lines : list gl; next_id : nat; g_version : string; g_vlevel : nat }.

Definition nth_s (n : nat) (l : list string) : string := nth n l "".

Definition tag_value (n : string) (tags : list string) : option string :=
  match find (fun t => String.eqb (substring 0 2 t) n) tags with
  | Some t => Some (substring 5 (String.length t - 5) t)
  | None => None
  end.

Definition is_star (s : string) : bool := String.eqb s "*".

(* the identifier under which a line is known (Line.name), if any *)
Definition name_of (l : gl) : option string :=
  match g_rk l with
  | KS1 | KS2 | KP | KUnk => Some (nth_s 0 (g_pos l))
  | KE | KGp | KO | KU => if is_star (nth_s 0 (g_pos l)) then None else Some (nth_s 0 (g_pos l))
  | KL | KC => tag_value "ID" (g_tags l)
  | _ => None
  end.

(* record types whose names live in the namespace searched by Gfa.line() — the GENERATED RECORDS_WITH_NAME *)
Definition rt_of (k : rk) : string :=
  match k with
  | KS1 | KS2 => "S" | KL => "L" | KC => "C" | KP => "P" | KE => "E" | KGp => "G" | KF => "F" | KO => "O"
  | KU => "U" | KCom => "#" | KCus => "?" | KUnk => String nl EmptyString | KHd => "H"
  end.

Definition in_namespace (l : gl) : bool := in_strs (rt_of (g_rk l)) T_RECORDS_WITH_NAME.

Definition find_named (s : gfa) (n : string) : option gl :=
  find (fun l => in_namespace l && match name_of l with Some m => String.eqb m n | None => false end) (lines s).

Definition is_segment (l : gl) : bool := match g_rk l with KS1 | KS2 => true | _ => false end.

Definition find_segment (s : gfa) (n : string) : option gl :=
  find (fun l => is_segment l && String.eqb (nth_s 0 (g_pos l)) n) (lines s).

(* ---------- mentions: (field, identifier, collection on the target, target must be a segment) ---------- *)
Record mention := mkM { m_field : string; m_target : string; m_coll : string; m_seg : bool }.

Definition oname (s : string) : string := drop_last s.                       (* "A+" -> "A" *)
Definition oorient (s : string) : string :=
  match last_char s with Some c => String c EmptyString | None => "" end.

Definition parse_pos (s : string) : Z * bool :=
  match last_char s with
  | Some "$"%char => (match py_int (drop_last s) with Some z => z | None => 0%Z end, true)
  | _ => (match py_int s with Some z => z | None => 0%Z end, false)
  end.

(* collections of an E line on its two segments: the GENERATED kernels *)
Definition edge_colls (pos : list string) : res (string * string) :=
  let o1 := oorient (nth_s 1 pos) in let o2 := oorient (nth_s 2 pos) in
  do st1 <- k_substring_type (parse_pos (nth_s 3 pos)) (parse_pos (nth_s 4 pos)) ;;
  do st2 <- k_substring_type (parse_pos (nth_s 5 pos)) (parse_pos (nth_s 6 pos)) ;;
  Ok (k_edge2_refkey_for_s o1 o2 1 (fst st1) (fst st2), k_edge2_refkey_for_s o1 o2 2 (fst st1) (fst st2)).

Definition mentions (l : gl) : list mention :=
  let p := g_pos l in
  match g_rk l with
  | KL => [mkM "from_segment" (nth_s 0 p) ("dovetails_" ++ snd (k_from_end "" (nth_s 1 p)))%string true;
           mkM "to_segment" (nth_s 2 p) ("dovetails_" ++ snd (k_to_end "" (nth_s 3 p)))%string true]
  | KC => [mkM "from_segment" (nth_s 0 p) "edges_to_contained" true;
           mkM "to_segment" (nth_s 2 p) "edges_to_containers" true]
  | KP => map (fun x => mkM "segment_names" (oname x) "paths" true) (split_on comma (nth_s 1 p))
  | KE => match edge_colls p with
          | Ok (c1, c2) => [mkM "sid1" (oname (nth_s 1 p)) c1 true; mkM "sid2" (oname (nth_s 2 p)) c2 true]
          | Err _ => []
          end
  | KGp => match k_gap_refkey_for_s (oorient (nth_s 1 p)) (oorient (nth_s 2 p)) 1,
                 k_gap_refkey_for_s (oorient (nth_s 1 p)) (oorient (nth_s 2 p)) 2 with
           | Ok c1, Ok c2 => [mkM "sid1" (oname (nth_s 1 p)) c1 true; mkM "sid2" (oname (nth_s 2 p)) c2 true]
           | _, _ => []
           end
  | KF => [mkM "sid" (nth_s 0 p) "fragments" true]
  | KO => map (fun x => mkM "items" (oname x) "paths" false) (split_on space (nth_s 1 p))
  | KU => map (fun x => mkM "items" x "sets" false) (split_on space (nth_s 1 p))
  | _ => []
  end.

(* links a path needs: consecutive oriented segments (and last->first when as many overlaps as segments) *)
Fixpoint pairs {A} (l : list A) : list (A * A) :=
  match l with
  | a :: ((b :: _) as r) => (a, b) :: pairs r
  | _ => []
  end.

Definition path_steps (p : list string) : list (oseg * oseg * alignment) :=
  let segs := map (fun x => (oname x, oorient x)) (split_on comma (nth_s 1 p)) in
  let ovs := split_on comma (nth_s 2 p) in
  let undef := Nat.eqb (List.length ovs) 1 && is_star (nth_s 0 ovs) in
  let circular := Nat.eqb (List.length ovs) (List.length segs) in
  let steps := pairs segs ++ (if circular && Nat.ltb 1 (List.length segs)
                              then match segs, rev segs with a :: _, z :: _ => [(z, a)] | _, _ => [] end else []) in
  let aln i := if undef then APlaceholder
               else match parse_alignment "gfa1" (nth_s i ovs) with Ok a => a | Err _ => APlaceholder end in
  if Nat.eqb (List.length segs) 1 then []
  else map (fun ip => (fst (snd ip), snd (snd ip), aln (fst ip)))
           (combine (seq 0 (List.length steps)) steps).

Definition link_value (l : gl) : link :=
  let p := g_pos l in
  mkLink (nth_s 0 p) (nth_s 1 p) (nth_s 2 p) (nth_s 3 p)
         (match parse_alignment "gfa1" (nth_s 4 p) with Ok a => a | Err _ => APlaceholder end).

(* Gfa._search_link: the first link on the from-segment's dovetails compatible with the step *)
Definition search_link (s : gfa) (a b : oseg) (ov : alignment) : option gl :=
  find (fun l => match g_rk l with
                 | KL => (String.eqb (nth_s 0 (g_pos l)) (fst a) || String.eqb (nth_s 2 (g_pos l)) (fst a)) &&
                         match is_compatible (link_value l) a b ov true with Ok true => true | _ => false end
                 | _ => false
                 end) (lines s).

(* ---------- derived back-references ---------- *)
Definition backrefs (s : gfa) (target : string) (coll : string) : list gl :=
  flat_map (fun l => map (fun _ => l)
                       (filter (fun m => String.eqb (m_target m) target && String.eqb (m_coll m) coll) (mentions l)))
           (lines s).

(* paths listed on a link: the paths one of whose steps resolves to it *)
Definition path_uses (s : gfa) (p : gl) (lk : gl) : nat :=
  List.length (filter (fun st => match search_link s (fst (fst st)) (snd (fst st)) (snd st) with
                                 | Some x => Nat.eqb (g_id x) (g_id lk) | None => false end)
                      (path_steps (g_pos p))).

(* ---------- adding a line ---------- *)
Definition mk_virtual_segment (s : gfa) (n : string) : gl :=
  if String.eqb (g_version s) "gfa1" then mkGl (next_id s) KS1 [n; "*"] [] true
  else mkGl (next_id s) KS2 [n; "1"; "*"] [] true.

Definition add_raw (s : gfa) (l : gl) : gfa :=
  mkGfa (lines s ++ [l]) (S (next_id s)) (g_version s) (g_vlevel s).

Definition fresh (s : gfa) (k : rk) (pos tags : list string) (virtual : bool) : gfa :=
  add_raw s (mkGl (next_id s) k pos tags virtual).

Definition remove_id (s : gfa) (i : nat) : gfa :=
  mkGfa (filter (fun l => negb (Nat.eqb (g_id l) i)) (lines s)) (next_id s) (g_version s) (g_vlevel s).

(* create a placeholder for an identifier that a line mentions and nothing defines.  A virtual segment is itself
   connected through the duplicate search: it replaces an Unknown placeholder of that name, and clashes with a
   real line of another record type *)
Definition ensure_target (r : res gfa) (m : mention) : res gfa :=
  do s <- r ;;
  if m_seg m then
    match find_segment s (m_target m) with
    | Some _ => Ok s
    | None =>
        match find_named s (m_target m) with
        | None => Ok (add_raw s (mk_virtual_segment s (m_target m)))
        | Some prev => if g_virtual prev
                       then let s0 := remove_id s (g_id prev) in Ok (add_raw s0 (mk_virtual_segment s0 (m_target m)))
                       else Err (G ENotUnique)
        end
    end
  else
    match find_named s (m_target m) with
    | Some _ => Ok s
    | None => Ok (fresh s KUnk [m_target m] [] true)
    end.

Definition ensure_targets (s : gfa) (ms : list mention) : res gfa := fold_left ensure_target ms (Ok s).

(* a path also needs its links: a virtual link (and its segments) for every step without one *)
Definition ensure_step (r : res gfa) (st : oseg * oseg * alignment) : res gfa :=
  do s <- r ;;
  let '(a, b, ov) := st in
  let have_segs := match find_segment s (fst a), find_segment s (fst b) with Some _, Some _ => true | _, _ => false end in
  match (if have_segs then search_link s a b ov else None) with
  | Some _ => Ok s
  | None =>
      let vl := mkGl (next_id s) KL [fst a; snd a; fst b; snd b; alignment_to_string ov] [] true in
      do s1 <- ensure_targets s (mentions vl) ;;
      Ok (add_raw s1 (mkGl (next_id s1) KL (g_pos vl) [] true))
  end.

Definition class_ok (s : gfa) (k : rk) : bool :=
  if String.eqb (g_version s) "gfa1" then match k with KS1 | KL | KC | KP | KCom | KHd => true | _ => false end
  else match k with KS2 | KE | KGp | KF | KO | KU | KCom | KCus | KHd => true | _ => false end.

Definition rk_of_class (n : string) : rk :=
  if String.eqb n "SegmentGFA1" then KS1 else if String.eqb n "SegmentGFA2" then KS2
  else if String.eqb n "Link" then KL else if String.eqb n "Containment" then KC
  else if String.eqb n "Path" then KP else if String.eqb n "EdgeGFA2" then KE
  else if String.eqb n "Gap" then KGp else if String.eqb n "Fragment" then KF
  else if String.eqb n "Ordered" then KO else if String.eqb n "Unordered" then KU
  else if String.eqb n "Comment" then KCom else if String.eqb n "Header" then KHd else KCus.

(* a parsed line as a graph line (canonical field texts) *)
Definition gl_of_line (O : oracle) (i : nat) (l : line) : gl :=
  let k := rk_of_class (rc_name (ln_class l)) in
  match k with
  | KCom => mkGl i k [line_to_s O l] [] false
  | KCus => mkGl i k (map (field_text O) (ln_pos l)) (map (tag_text O) (ln_tags l)) false
  | _ => mkGl i k (map (field_text O) (ln_pos l)) (map (tag_text O) (ln_tags l)) false
  end.

(* merging a second U/O line with the same identifier into the stored group (group/gfa2/same_id.py):
   items of the stored line first, then the new ones; tags of the new line, then the stored tags it lacks *)
Definition tag_name (t : string) : string := substring 0 2 t.

Definition merge_group (old new : gl) : res gl :=
  let clash := existsb (fun t => match find (fun u => String.eqb (tag_name u) (tag_name t)) (g_tags new) with
                                 | Some u => negb (String.eqb u t) | None => false end) (g_tags old) in
  if clash then Err (G ENotUnique) else
  let sep := if rk_eqb (g_rk old) KO then " " else " " in
  Ok (mkGl (g_id new) (g_rk new)
           [nth_s 0 (g_pos new); (nth_s 1 (g_pos old) ++ sep ++ nth_s 1 (g_pos new))%string]
           (g_tags new ++ filter (fun t => negb (existsb (fun u => String.eqb (tag_name u) (tag_name t)) (g_tags new)))
                                 (g_tags old))
           false).

(* file a line whose identifier is free: placeholders for what it mentions, then the line itself *)
Definition place (s0 : gfa) (l : gl) : res gfa :=
  do s1 <- match g_rk l with KP => fold_left ensure_step (path_steps (g_pos l)) (Ok s0) | _ => Ok s0 end ;;
  do s2 <- ensure_targets s1 (mentions l) ;;
  Ok (add_raw s2 (mkGl (next_id s2) (g_rk l) (g_pos l) (g_tags l) false)).

(* Gfa._search_duplicate: links are searched by oriented segment pair, named lines by identifier *)
Definition duplicate_of (s : gfa) (l : gl) : option gl :=
  match g_rk l with
  | KL => let lv := link_value l in
          if match find_segment s (l_from lv) with Some _ => true | None => false end
          then search_link s (oriented_from lv) (oriented_to lv) (l_ov lv) else None
  | _ => if in_namespace l then match name_of l with Some n => find_named s n | None => None end else None
  end.

(* Line.connect for a parsed, non-header line *)
Definition connect (s : gfa) (l : gl) : res gfa :=
  (* E lines: the collection of each segment is computed before anything is changed and may raise *)
  do _ <- (match g_rk l with KE => rmap (fun _ => tt) (edge_colls (g_pos l)) | _ => Ok tt end) ;;
  match duplicate_of s l with
  | None => place s l
  | Some prev =>
      if g_virtual prev then place (remove_id s (g_id prev)) l      (* the definition replaces its placeholder *)
      else match g_rk l with
           | KL => if is_complement (link_value l) (link_value prev) then Ok s else Err (G ENotUnique)
           | KO | KU =>
               if rk_eqb (g_rk prev) (g_rk l) then
                 do m <- merge_group prev l ;;
                 place (remove_id s (g_id prev)) m
               else Err (G ENotUnique)
           | _ => Err (G ENotUnique)
           end
  end.

(* Gfa.add_line(text) with a known version *)
Definition add_line (O : oracle) (s : gfa) (text : string) : res gfa :=
  if String.eqb text "" then Ok s else
  do l <- (match text with
           | String "S" _ => parse_line O (g_vlevel s) None text
           | _ => parse_line O (g_vlevel s) (Some (g_version s)) text
           end) ;;
  let k := rk_of_class (rc_name (ln_class l)) in
  if negb (class_ok s k) then Err (G EVersion) else
  match k with
  | KHd => Ok s                                       (* headers: see Model/Doc.v *)
  | _ => connect s (gl_of_line O 0 l)
  end.

(* ---------- removal ---------- *)
Definition dependent_colls (k : rk) : list string :=
  match k with
  | KS1 => T_SegmentGFA1_DEPENDENT_LINES | KS2 => T_SegmentGFA2_DEPENDENT_LINES
  | KL => T_Link_DEPENDENT_LINES | KC => T_Containment_DEPENDENT_LINES | KP => T_Path_DEPENDENT_LINES
  | KE => T_EdgeGFA2_DEPENDENT_LINES | KGp => T_Gap_DEPENDENT_LINES | KF => T_Fragment_DEPENDENT_LINES
  | KO => T_Ordered_DEPENDENT_LINES | KU => T_Unordered_DEPENDENT_LINES | KUnk => T_Unknown_DEPENDENT_LINES
  | _ => []
  end.

(* lines that depend on [x]: they mention it in a collection that the class of [x] declares dependent,
   or (for a link) they are paths one of whose steps resolves to it *)
Definition dependants (s : gfa) (x : gl) : list gl :=
  let by_name :=
    match name_of x with
    | Some n => filter (fun l => existsb (fun m => String.eqb (m_target m) n && in_strs (m_coll m) (dependent_colls (g_rk x))
                                                 && (Bool.eqb (m_seg m) (is_segment x) || negb (m_seg m)))
                                       (mentions l)) (lines s)
    | None => []
    end in
  let by_link :=
    match g_rk x with
    | KL => if in_strs "paths" (dependent_colls KL)
            then filter (fun p => match g_rk p with KP => Nat.ltb 0 (path_uses s p x) | _ => false end) (lines s) else []
    | _ => []
    end in
  by_name ++ by_link.

Definition mem_id (i : nat) (l : list nat) : bool := existsb (Nat.eqb i) l.

(* the cascade: least set of identities containing the start and closed under [dependants] (fuel = number of lines) *)
Fixpoint closure (fuel : nat) (s : gfa) (todo : list gl) (acc : list nat) : list nat :=
  match fuel with
  | O => acc
  | S f =>
      match todo with
      | [] => acc
      | x :: r =>
          if mem_id (g_id x) acc then closure f s r acc
          else closure f s (r ++ dependants s x) (g_id x :: acc)
      end
  end.

Definition fuel_for (s : gfa) : nat := S (List.length (lines s) * S (List.length (lines s))).

(* the set is closed under [dependants]: checked, so that running out of fuel cannot go unnoticed *)
Definition closed_under (s : gfa) (dead : list nat) : bool :=
  forallb (fun y => negb (mem_id (g_id y) dead) || forallb (fun z => mem_id (g_id z) dead) (dependants s y)) (lines s).

Definition disconnect (s : gfa) (x : gl) : res gfa :=
  let dead := closure (fuel_for s) s [x] [] in
  if mem_id (g_id x) dead && closed_under s dead
  then Ok (mkGfa (filter (fun l => negb (mem_id (g_id l) dead)) (lines s)) (next_id s) (g_version s) (g_vlevel s))
  else Err (Foreign RecursionError).

(* Gfa.rm(name) *)
Definition rm (s : gfa) (n : string) : res gfa :=
  if is_star n then Err (G EValue) else
  match find_named s n with
  | Some x => disconnect s x
  | None => Err (G ENotFound)
  end.

(* ---------- rename of a segment (line.name = new) ---------- *)
Definition rename_in (k : rk) (old new : string) (p : list string) : list string :=
  let on_o (x : string) := if String.eqb (oname x) old then (new ++ oorient x)%string else x in
  let on_n (x : string) := if String.eqb x old then new else x in
  match k with
  | KL | KC => [on_n (nth_s 0 p); nth_s 1 p; on_n (nth_s 2 p); nth_s 3 p] ++ skipn 4 p
  | KP => [nth_s 0 p; join_with "," (map on_o (split_on comma (nth_s 1 p)))] ++ skipn 2 p
  | KE | KGp => [nth_s 0 p; on_o (nth_s 1 p); on_o (nth_s 2 p)] ++ skipn 3 p
  | KF => on_n (nth_s 0 p) :: skipn 1 p
  | KO => [nth_s 0 p; join_with " " (map on_o (split_on space (nth_s 1 p)))] ++ skipn 2 p
  | KU => [nth_s 0 p; join_with " " (map on_n (split_on space (nth_s 1 p)))] ++ skipn 2 p
  | _ => p
  end.

Definition name_module (k : rk) : string :=
  match k with
  | KS1 => "segment_name_gfa1" | KP => "path_name_gfa1" | KS2 | KUnk => "identifier_gfa2"
  | KE | KGp | KO | KU => "optional_identifier_gfa2"
  | _ => "generic"
  end.

Definition rename (s : gfa) (old new : string) : res gfa :=
  match find_named s old with
  | None => Err (G ENotFound)
  | Some x =>
      if negb (py_fullmatch re_oriented_line___validate_line new) && Nat.leb 3 (g_vlevel s) then Err (G EFormat) else
      (* at level >= 1 the identifier is read back with the safe decoder of the name field: checked before anything changes *)
      if Nat.leb 1 (g_vlevel s) && negb (accepts_module (table_oracle [] []) (name_module (g_rk x)) new) then Err (G EFormat) else
      match find_named s new with
      | Some y => if Nat.eqb (g_id y) (g_id x) then Ok s else Err (G ENotUnique)
      | None =>
          (* the renamed line moves to the end of its collection; everything that mentions it follows the name *)
          let others := filter (fun l => negb (Nat.eqb (g_id l) (g_id x))) (lines s) in
          let others' := map (fun l => mkGl (g_id l) (g_rk l) (rename_in (g_rk l) old new (g_pos l)) (g_tags l) (g_virtual l)) others in
          let x' := mkGl (g_id x) (g_rk x) (new :: skipn 1 (g_pos x)) (g_tags x) (g_virtual x) in
          Ok (mkGfa (others' ++ [x']) (next_id s) (g_version s) (g_vlevel s))
      end
  end.

Definition gl_text (l : gl) : string :=
  match g_rk l with
  | KCom => nth_s 0 (g_pos l)
  | KUnk => ("?record_type?" ++ String tab EmptyString ++ nth_s 0 (g_pos l) ++ String tab EmptyString ++ "co:Z:line_created_by_gfapy")%string
  | KCus => join_with (String tab EmptyString) (g_pos l ++ g_tags l)
  | k => join_with (String tab EmptyString)
           (rt_of k :: g_pos l ++ g_tags l ++ (if g_virtual l then ["co:Z:GFAPY_virtual_line"] else []))
  end.

(* Gfa.rm(line): removal by instance, here by the written text of a line that is not a placeholder (the only way to
   remove a line without identifier: fragments, unnamed edges, links) *)
Definition rm_line (s : gfa) (t : string) : res gfa :=
  match find (fun l => negb (g_virtual l) && String.eqb (gl_text l) t) (lines s) with
  | Some x => disconnect s x
  | None => Err (G ENotFound)
  end.

(* ---------- operations and observation ---------- *)
Inductive op := OAdd (text : string) | ORm (name : string) | ORename (old new : string) | ORmLine (text : string).

Definition step (O : oracle) (s : gfa) (o : op) : res gfa :=
  match o with
  | OAdd t => add_line O s t
  | ORm n => rm s n
  | ORename a b => rename s a b
  | ORmLine t => rm_line s t
  end.

(* a failing operation leaves the state as it was *)
Definition apply (O : oracle) (s : gfa) (o : op) : gfa * option exn :=
  match step O s o with Ok s' => (s', None) | Err e => (s, Some e) end.

Definition init_gfa (version : string) (vlevel : nat) : gfa := mkGfa [] 0 version vlevel.
