(* Model/Version.v — how a Gfa decides its version (lines/creators.py: add_line, the unknown-version queue,
   process_line_queue; gfa.py: __init__, validate / rgfa.py: _validate_rgfa_version), validation level >= 1.
   Each line is abstracted to what matters for the version: *)
From Coq Require Import List String Ascii ZArith Bool.
From GfaV Require Import Base.Py.
Import ListNotations.

Inductive ver := V1 | V2.
Definition ver_eqb (a b : ver) : bool := match a, b with V1, V1 | V2, V2 => true | _, _ => false end.

Inductive kind :=
| KVN (v : option ver)   (* H line with a VN tag: 1.0, 2.0, or (None) any other value *)
| KH                     (* H line without VN *)
| KS (v : ver)           (* S line in GFA1 / GFA2 syntax *)
| KG (v : ver)           (* record type of one version only: L C P / E F G O U *)
| KComment
| KCustom.               (* any other record type *)

Record cfg := mkCfg { c_version : option ver; c_rgfa : bool }.

Record st := mkSt {
  s_version : option ver;     (* Gfa._version *)
  s_guess : ver;              (* Gfa._version_guess *)
  s_queue : list kind;        (* Gfa._line_queue *)
  s_added : list kind }.      (* lines merged/connected so far, in order *)

Definition init (c : cfg) : st :=
  mkSt (c_version c) (match c_version c with Some v => v | None => V2 end) [] [].

(* __add_line_GFA1 / __add_line_GFA2: the line must be compatible with the known version *)
Definition compatible (v : ver) (k : kind) : bool :=
  match k with
  | KVN (Some w) => ver_eqb v w
  | KVN None => false
  | KH => true
  | KS w => ver_eqb v w
  | KG w => ver_eqb v w
  | KComment => true
  | KCustom => match v with V1 => false | V2 => true end
  end.

Definition add_known (v : ver) (s : st) (k : kind) : res st :=
  if compatible v k then Ok (mkSt (s_version s) (s_guess s) (s_queue s) (s_added s ++ [k]))
  else Err (G EVersion).

(* process_line_queue once the version is v: the queued lines are added in order; the queue is cleared
   only when all of them were added (F29: on failure the state keeps the queue — the outcome is an error) *)
Fixpoint add_all (v : ver) (s : st) (q : list kind) : res st :=
  match q with
  | [] => Ok s
  | k :: r => do s' <- add_known v s k ;; add_all v s' r
  end.

Definition process_queue (v : ver) (s : st) : res st :=
  do s' <- add_all v (mkSt (Some v) (s_guess s) (s_queue s) (s_added s)) (s_queue s) ;;
  Ok (mkSt (Some v) (s_guess s') [] (s_added s')).

(* add_line *)
Definition step (s : st) (k : kind) : res st :=
  match s_version s with
  | Some v => add_known v s k
  | None =>
      match k with
      | KComment => Ok (mkSt None (s_guess s) (s_queue s) (s_added s ++ [k]))
      | KH => Ok (mkSt None (s_guess s) (s_queue s) (s_added s ++ [k]))
      | KVN None => Err (G EVersion)                       (* unsupported VN: rejected before the merge *)
      | KVN (Some v) =>
          process_queue v (mkSt None (s_guess s) (s_queue s) (s_added s ++ [k]))
      | KS v =>
          (* version set, queue processed, then the line itself is connected *)
          do s' <- process_queue v s ;;
          Ok (mkSt (s_version s') (s_guess s') (s_queue s') (s_added s' ++ [k]))
      | KG V2 =>
          do s' <- process_queue V2 s ;;
          Ok (mkSt (s_version s') (s_guess s') (s_queue s') (s_added s' ++ [k]))
      | KG V1 => Ok (mkSt None V1 (s_queue s ++ [k]) (s_added s))
      | KCustom => Ok (mkSt None (s_guess s) (s_queue s ++ [k]) (s_added s))
      end
  end.

Fixpoint run (s : st) (ks : list kind) : res st :=
  match ks with
  | [] => Ok s
  | k :: r => do s' <- step s k ;; run s' r
  end.

Inductive outcome := Accepted (v : ver) (added : list kind) | Rejected.

(* Gfa(lines): add every line, process what is still queued with the guessed version, validate *)
Definition build (c : cfg) (ks : list kind) : outcome :=
  match run (init c) ks with
  | Err _ => Rejected
  | Ok s =>
      let v := match s_version s with Some v => v | None => s_guess s end in
      match process_queue v s with
      | Err _ => Rejected
      | Ok s' => if c_rgfa c && negb (ver_eqb v V1) then Rejected else Accepted v (s_added s')
      end
  end.
