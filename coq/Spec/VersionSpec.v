(* Spec/VersionSpec.v — the version of a document as a function of its content alone (no order):
   an explicit version wins; else the version named by a VN header or implied by version-specific content
   (segment syntax, E/F/G/O/U records); else GFA1 if there are L/C/P records, GFA2 otherwise.  A document is
   accepted iff every line is valid in that version (and rGFA documents are GFA1). *)
From Coq Require Import List String Ascii ZArith Bool.
From GfaV Require Import Base.Py Model.Version.
Import ListNotations.

Definition decides (k : kind) : option ver :=
  match k with
  | KVN (Some v) => Some v
  | KS v => Some v
  | KG V2 => Some V2
  | _ => None
  end.

Definition says (v : ver) (ks : list kind) : bool :=
  existsb (fun k => match decides k with Some w => ver_eqb v w | None => false end) ks.

Definition has_g1 (ks : list kind) : bool := existsb (fun k => match k with KG V1 => true | _ => false end) ks.

Definition content_version (c : cfg) (ks : list kind) : ver :=
  match c_version c with
  | Some v => v
  | None => if says V1 ks then V1 else if says V2 ks then V2
            else if has_g1 ks then V1 else V2
  end.

Definition valid_in (v : ver) (ks : list kind) : bool := forallb (compatible v) ks.

Definition decide (c : cfg) (ks : list kind) : option ver :=
  let v := content_version c ks in
  if valid_in v ks && negb (c_rgfa c && negb (ver_eqb v V1)) then Some v else None.
