(* Spec/Grammar.v — field grammars written from the GFA1/GFA2 specifications and the SAM tag
   grammar (independent of gfapy's source): one regular expression per datatype plus the side
   conditions a regular expression cannot carry.  [G_field md s] is the specification of "s is a
   valid encoded field of datatype md". *)
From Coq Require Import List String Ascii NArith ZArith Bool.
From GfaV Require Import Base.Regex.
Import ListNotations.
Open Scope string_scope.

Definition rng (a b : ascii) : N * N := (N_of_ascii a, N_of_ascii b).
Definition one (a : ascii) : N * N := rng a a.
Fixpoint seq (l : list re) : re :=
  match l with [] => Eps | [x] => x | x :: r => Cat x (seq r) end.

Definition digit := Cls [rng "0" "9"].
Definition sign := Cls [one "+"; one "-"].
Definition printable := Cls [rng "!" "~"].             (* [!-~] *)
Definition printable_sp := Cls [rng " " "~"].          (* [ !-~] *)
Definition orient := Cls [one "+"; one "-"].

Definition g_integer := seq [Opt sign; Plus digit].
Definition g_float :=
  seq [Opt sign; Star digit; Opt (Cls [one "."]); Plus digit;
       Opt (seq [Cls [one "E"; one "e"]; Opt sign; Plus digit])].
Definition g_string := Plus printable_sp.
Definition g_char := printable.
Definition g_hexc := Cls [rng "0" "9"; rng "A" "F"].
Definition g_hex := Plus (Cat g_hexc g_hexc).          (* pairs of hexadecimal digits *)
Definition g_numeric_array :=
  Alt (Alt (seq [Cls [one "f"]; Plus (seq [Cls [one ","]; g_float])])
           (seq [Cls [one "C"; one "I"; one "S"]; Plus (seq [Cls [one ","]; Opt (Cls [one "+"]); Plus digit])]))
      (seq [Cls [one "c"; one "i"; one "s"]; Plus (seq [Cls [one ","]; Opt sign; Plus digit])]).
Definition g_identifier := Plus printable.
Definition g_identifier_list := seq [Plus printable; Star (seq [Cls [one " "]; Plus printable])].
Definition g_oriented_identifier := seq [Plus printable; orient].
Definition g_oriented_identifier_list2 :=
  seq [Plus printable; orient; Star (seq [Cls [one " "]; Plus printable; orient])].
(* GFA1 names: first character is not '*' or '=' *)
Definition name1_first := Cls [rng "!" ")"; rng "+" "<"; rng ">" "~"].
Definition g_name1 := seq [name1_first; Star printable].
Definition g_oriented_identifier_list1 :=
  seq [name1_first; Star printable; orient; Star (seq [Cls [one ","]; name1_first; Star printable; orient])].
Definition g_plus_comma := seq [orient; Cls [one ","]].     (* the substring a GFA1 segment name must not contain *)
Definition g_position1 := Plus digit.
Definition g_position2 := seq [Plus digit; Opt (Cls [one "$"])].
Definition g_optional_integer := Alt (Cls [one "*"]) (seq [Opt sign; Plus digit]).
Definition g_sequence1 := Alt (Cls [one "*"]) (Plus (Cls [one "."; one "="; rng "A" "Z"; rng "a" "z"])).
Definition g_sequence2 := Plus printable.
Definition cigar1_op := seq [Plus digit; Cls [one "="; one "D"; rng "H" "I"; rng "M" "N"; one "P"; one "S"; one "X"]].
Definition cigar2_op := seq [Plus digit; Cls [one "D"; one "I"; one "M"; one "P"]].
Definition g_cigar1 := Plus cigar1_op.
Definition g_cigar2 := Plus cigar2_op.
Definition g_alignment1 := Alt (Cls [one "*"]) (Plus cigar1_op).
Definition g_alignment_list1 := seq [g_alignment1; Star (seq [Cls [one ","]; g_alignment1])].
Definition g_trace := seq [Opt (Cls [one "-"]); Plus digit; Star (seq [Cls [one ","]; Opt (Cls [one "-"]); Plus digit])].
Definition g_tag :=
  seq [seq [Cls [rng "A" "Z"; rng "a" "z"]; Cls [rng "0" "9"; rng "A" "Z"; rng "a" "z"]]; Cls [one ":"];
       Cls [rng "A" "B"; one "H"; one "J"; one "Z"; one "f"; one "i"]; Cls [one ":"]; Plus Dot].
Definition g_tagname := seq [Cls [rng "A" "Z"; rng "a" "z"]; Cls [rng "0" "9"; rng "A" "Z"; rng "a" "z"]].

Fixpoint even_len (s : string) : bool :=
  match s with EmptyString => true | String _ EmptyString => false | String _ (String _ r) => even_len r end.

Definition contains (r : re) (s : string) : Prop :=
  exists a b c, s = (a ++ b ++ c)%string /\ lang r b.

(* specification of the datatypes whose grammar is a regular expression plus simple side conditions *)
Definition G_field (md : string) (s : string) : Prop :=
  if String.eqb md "integer" then lang g_integer s
  else if String.eqb md "float" then lang g_float s
  else if String.eqb md "string" then lang g_string s
  else if String.eqb md "char" then lang g_char s
  else if String.eqb md "byte_array" then lang g_hex s /\ even_len s = true
  else if String.eqb md "identifier_gfa2" then lang g_identifier s
  else if String.eqb md "identifier_list_gfa2" then lang g_identifier_list s
  else if String.eqb md "optional_identifier_gfa2" then lang g_identifier s
  else if String.eqb md "oriented_identifier_list_gfa2" then lang g_oriented_identifier_list2 s
  else if String.eqb md "path_name_gfa1" then lang g_name1 s
  else if String.eqb md "position_gfa1" then lang g_position1 s
  else if String.eqb md "sequence_gfa1" then lang g_sequence1 s
  else if String.eqb md "sequence_gfa2" then lang g_sequence2 s
  else if String.eqb md "alignment_list_gfa1" then lang g_alignment_list1 s
  else if String.eqb md "orientation" then s = "+" \/ s = "-"
  else False.

Definition regex_modules : list string :=
  ["integer"; "string"; "char"; "byte_array"; "identifier_gfa2"; "identifier_list_gfa2";
   "optional_identifier_gfa2"; "oriented_identifier_list_gfa2"; "path_name_gfa1"; "position_gfa1";
   "sequence_gfa1"; "sequence_gfa2"; "alignment_list_gfa1"; "orientation"].
