(* Spec/EdgeSpec.v — which traversal collection of a segment an edge record belongs to,
   written from the GFA1/GFA2 specifications (not from gfapy's code):
   * L: the overlap lies on the end of the from-segment that its orientation makes the
        trailing one (R for +, L for -) and on the leading end of the to-segment (L for +, R for -);
   * C: 'to contained' on the container (from), 'to container' on the contained (to);
   * E: an interval is the whole segment, a prefix (starts at 0), a suffix (ends at the last
        position, marked $) or internal.  If one interval is the whole segment the edge is a
        containment (the whole one is contained; both whole: sid1 is the container by
        convention).  Otherwise it is a dovetail iff, after swapping prefix and suffix for a
        reversed (-) segment, one side is a suffix and the other a prefix; it is then filed on
        the L end of a segment whose interval is a prefix and the R end when it is a suffix.
        Everything else is an internal alignment;
   * G: like L — trailing end of sid1, leading end of sid2. *)
From Coq Require Import List String Ascii ZArith Bool.
Import ListNotations.
Open Scope string_scope.

Definition pos := (Z * bool)%type.           (* value, carries the $ marker *)

Inductive ikind := KWhole | KPfx | KSfx | KInternal.

Definition ikind_of (b e : pos) : ikind :=
  if Z.eqb (fst b) 0 then (if snd e then KWhole else KPfx)
  else if snd e then KSfx else KInternal.

(* a well-formed interval on a segment of positive length *)
Definition wf_interval (b e : pos) : bool :=
  Z.leb 0 (fst b) && Z.leb (fst b) (fst e) &&
  implb (snd b) (snd e && Z.eqb (fst b) (fst e)) &&      (* $ on begin only for the empty interval at the end *)
  negb (snd e && Z.eqb (fst e) 0).                         (* the segment is not empty *)

Definition plus (o : string) : bool := String.eqb o "+".

Definition eff (o : string) (k : ikind) : ikind :=
  if plus o then k else match k with KPfx => KSfx | KSfx => KPfx | x => x end.

Definition end_of (k : ikind) : string := match k with KPfx => "L" | _ => "R" end.

Inductive eclass := Dovetail | Containment | Internal.

Definition edge_class (o1 o2 : string) (k1 k2 : ikind) : eclass :=
  match k1, k2 with
  | KWhole, _ | _, KWhole => Containment
  | _, _ => match eff o1 k1, eff o2 k2 with
            | KSfx, KPfx | KPfx, KSfx => Dovetail
            | _, _ => Internal
            end
  end.

(* collection on segment number snum (1 or 2) *)
Definition collection_of_E (o1 o2 : string) (snum : Z) (k1 k2 : ikind) : string :=
  match edge_class o1 o2 k1 k2 with
  | Containment =>
      let sid1_is_container := match k2 with KWhole => true | _ => false end in
      if Bool.eqb (Z.eqb snum 1) sid1_is_container then "edges_to_contained" else "edges_to_containers"
  | Dovetail => "dovetails_" ++ end_of (if Z.eqb snum 1 then k1 else k2)
  | Internal => "internals"
  end.

Definition class_letter (c : eclass) : string :=
  match c with Dovetail => "L" | Containment => "C" | Internal => "I" end.

Definition trailing_end (o : string) : string := if plus o then "R" else "L".
Definition leading_end (o : string) : string := if plus o then "L" else "R".

Definition collection_of_L (fo too : string) (is_from : bool) : string :=
  "dovetails_" ++ (if is_from then trailing_end fo else leading_end too).
Definition collection_of_C (is_from : bool) : string :=
  if is_from then "edges_to_contained" else "edges_to_containers".
Definition collection_of_G (o1 o2 : string) (snum : Z) : string :=
  "gaps_" ++ (if Z.eqb snum 1 then trailing_end o1 else leading_end o2).
