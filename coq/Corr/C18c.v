(* Corr/C18c.v — sequences of assignments, writes and validations of one field, model against gfapy. *)
From Coq Require Import List String Ascii ZArith Bool.
From GfaV Require Import Base.Py Model.Codec Model.Levels.
Import ListNotations.
Open Scope string_scope.

(* level, datatype, initial text, operations with the observed outcome ("ok", "ok:<text>" for writes, "err"), tables *)
Definition lev_case := (nat * string * string * list (lop * string) * list (string * string) * list (string * option string))%type.

Definition show_out (o : lop) (r : res string) : string :=
  match r with
  | Err _ => "err"
  | Ok t => match o with LWrite => ("ok:" ++ t)%string | _ => "ok" end
  end.

Fixpoint replay_lev (O : oracle) (level : nat) (c : fcell) (ops : list (lop * string)) : bool :=
  match ops with
  | [] => true
  | (o, obs) :: r => let '(c1, out) := lstep O level c o in String.eqb (show_out o out) obs && replay_lev O level c1 r
  end.

Definition check_lev (c : lev_case) : bool :=
  let '(level, dt, init, ops, ft, jt) := c in
  replay_lev (table_oracle ft jt) level (mkF dt init) ops.

Fixpoint trace_lev (O : oracle) (level : nat) (c : fcell) (ops : list (lop * string)) : string :=
  match ops with
  | [] => ""
  | (o, obs) :: r => let '(c1, out) := lstep O level c o in (show_out o out ++ " " ++ trace_lev O level c1 r)%string
  end.

Definition show_lev (c : lev_case) : string :=
  let '(level, dt, init, ops, ft, jt) := c in trace_lev (table_oracle ft jt) level (mkF dt init) ops.
