(* Corr/C20c.v — integer_type and the default datatype evaluated on the values the implementation was given. *)
From Coq Require Import List String Ascii ZArith Bool.
From GfaV Require Import Base.Py Gen.K_numarr Model.Codec Model.TagValue.
Import ListNotations.
Open Scope string_scope.

(* min, max, subtype written by the implementation (None: rejected) *)
Definition itype_case := (Z * Z * option string)%type.
Definition check_itype (c : itype_case) : bool :=
  let '(lo, hi, st) := c in
  match k_integer_type (lo, hi), st with
  | Ok a, Some b => String.eqb a b
  | Err (G EValue), None => true
  | _, _ => false
  end.

Definition ddt_case := (vkind * string)%type.
Definition check_ddt (c : ddt_case) : bool := String.eqb (default_datatype (fst c)) (snd c).
