(* Corr/C14c.v — linear paths and merged segments of the model against gfapy's answers. *)
From Coq Require Import List String Ascii ZArith Bool.
From GfaV Require Import Base.Py Model.Codec Model.Graph Model.Linear Proofs.GraphP Corr.C12c Corr.Graphc.
Import ListNotations.
Open Scope string_scope.

Definition show_path (p : list send) : string := join_with " " (map (fun x => (fst x ++ ":" ++ snd x)%string) p).

Definition show_paths (s : gfa) : string :=
  match linear_paths s with
  | Ok ps => join_with ";" (map show_path ps)
  | Err e => ("err:" ++ exn_name e)%string
  end.

Definition show_merged (s : gfa) (p : list send) : string :=
  match merged_segment s p with
  | Ok (n, sq, ln) => (n ++ "|" ++ sq ++ "|" ++ match ln with Some z => str_of_Z z | None => "-" end)%string
  | Err e => ("err:" ++ exn_name e)%string
  end.

(* version, build operations, tables, gfapy's linear_paths, and per path gfapy's merged segment *)
Definition lin_case := (string * list op * list (string * string) * list (string * option string) *
                        string * list (list send * string))%type.

Definition state_of (c : lin_case) : gfa :=
  let '(ver, ops, ft, jt, _, _) := c in run_ops (table_oracle ft jt) (init_gfa ver 1) ops.

Definition check_lin (c : lin_case) : bool :=
  let '(ver, ops, ft, jt, paths, ms) := c in
  let s := state_of c in
  String.eqb (show_paths s) paths && forallb (fun pm => String.eqb (show_merged s (fst pm)) (snd pm)) ms.

Definition show_lin (c : lin_case) : string :=
  let '(ver, ops, ft, jt, paths, ms) := c in
  let s := state_of c in
  (show_paths s ++ "##" ++ join_with ";;" (map (fun pm => show_merged s (fst pm)) ms))%string.

(* the whole graph after merge_linear_paths(): the paths gfapy found, merged one after the other *)
Definition merge_case := (string * list op * list (string * string) * list (string * option string) *
                          list (list send) * string)%type.

Definition merged_state (c : merge_case) : res gfa :=
  let '(ver, ops, ft, jt, paths, _) := c in
  merge_paths (run_ops (table_oracle ft jt) (init_gfa ver 1) ops) paths.

Definition check_merge (c : merge_case) : bool :=
  let '(ver, ops, ft, jt, paths, after) := c in
  match merged_state c with
  | Ok s' => String.eqb (obs s') after
  | Err e => String.eqb ("err:" ++ exn_name e) after
  end.

Definition show_merge (c : merge_case) : string :=
  match merged_state c with
  | Ok s' => obs s'
  | Err e => ("err:" ++ exn_name e)%string
  end.
