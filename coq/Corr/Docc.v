(* Corr/Docc.v — doc_write (parse_doc T) against str(Gfa(T)). *)
From Coq Require Import List String Ascii ZArith Bool.
From GfaV Require Import Base.Py Model.Codec Model.Line Model.Doc.
Import ListNotations.
Open Scope string_scope.

Fixpoint strs_eqb (a b : list string) : bool :=
  match a, b with
  | [], [] => true
  | x :: a', y :: b' => String.eqb x y && strs_eqb a' b'
  | _, _ => false
  end.

(* vlevel, version, input lines, lines written by the implementation, float and json tables *)
Definition doc_case := (nat * string * list string * list string * list (string * string) * list (string * option string))%type.

Definition check_doc (c : doc_case) : bool :=
  let '(vl, ver, text, written, ft, jt) := c in
  let O := table_oracle ft jt in
  match parse_doc O vl ver text with
  | Ok ls => strs_eqb (doc_write O ls) written &&
             (* writing is a fixed point in the model too *)
             match parse_doc O vl ver (doc_write O ls) with
             | Ok ls2 => strs_eqb (doc_write O ls2) written
             | Err _ => false
             end
  | Err _ => false
  end.

Definition show_doc (c : doc_case) : string :=
  let '(vl, ver, text, written, ft, jt) := c in
  let O := table_oracle ft jt in
  match parse_doc O vl ver text with
  | Ok ls => String.concat "|" (doc_write O ls)
  | Err e => "ERR:" ++ exn_name e
  end.
