(* Corr/C10c.v — the written form of a line after each of a sequence of field reads, model against gfapy. *)
From Coq Require Import List String Ascii ZArith Bool.
From GfaV Require Import Base.Py Model.Codec Model.Purity.
Import ListNotations.
Open Scope string_scope.

(* vlevel, cells (prefix, datatype, text), written line at construction, (cell read, written line afterwards), tables *)
Definition lazy_case := (nat * list (string * string * string) * string * list (nat * string) *
                         list (string * string) * list (string * option string))%type.

Fixpoint replay (O : oracle) (l : pline) (steps : list (nat * string)) : bool :=
  match steps with
  | [] => true
  | (j, w) :: r =>
      let l' := update l j (fun c => fst (get_cell O c)) in
      String.eqb (write_line l') w && replay O l' r
  end.

Definition line_of (c : lazy_case) : oracle * pline :=
  let '(vl, cells, first, steps, ft, jt) := c in
  let O := table_oracle ft jt in
  (O, map (fun x => let '(p, dt, t) := x in init_cell O vl p dt t) cells).

Definition check_lazy (c : lazy_case) : bool :=
  let '(vl, cells, first, steps, ft, jt) := c in
  let '(Or, l) := line_of c in
  String.eqb (write_line l) first && replay Or l steps.

Fixpoint trace (O : oracle) (l : pline) (steps : list (nat * string)) : string :=
  match steps with
  | [] => ""
  | (j, w) :: r => let l' := update l j (fun c => fst (get_cell O c)) in (" || " ++ write_line l' ++ trace O l' r)%string
  end.

Definition show_lazy (c : lazy_case) : string :=
  let '(vl, cells, first, steps, ft, jt) := c in
  let '(Or, l) := line_of c in (write_line l ++ trace Or l steps)%string.
