(* Corr/C17c.v — captured paths and induced sets of the model state after a document is built, against gfapy's answers. *)
From Coq Require Import List String Ascii ZArith Bool.
From GfaV Require Import Base.Py Model.Codec Model.Graph Model.Groups Proofs.GraphP Corr.C12c Corr.Graphc.
Import ListNotations.
Open Scope string_scope.

Definition edge_label (l : gl) : string :=
  if String.eqb (nth_s 0 (g_pos l)) "*" then ("*" ++ nth_s 1 (g_pos l) ++ nth_s 2 (g_pos l))%string else nth_s 0 (g_pos l).

Definition label_pel (s : gfa) (p : pel) : string :=
  match p with
  | PS r => (fst r ++ snd r)%string
  | PE i o => match edge_at s i with Some l => (edge_label l ++ o)%string | None => "?" end
  end.

Definition answer_O (s : gfa) (n : string) : string :=
  match find_named s n with
  | None => "missing"
  | Some g => match captured_path s g with
              | Ok p => ("ok:" ++ join_with " " (map (label_pel s) p))%string
              | Err e => ("err:" ++ exn_name e)%string
              end
  end.

Definition answer_U (s : gfa) (n : string) : string :=
  match find_named s n with
  | None => "missing"
  | Some g => match induced_set s g with
              | Ok (segs, es) => ("ok:" ++ join_with "," (sort_strs segs) ++ "#" ++ join_with "," (sort_strs (map edge_label es)))%string
              | Err e => ("err:" ++ exn_name e)%string
              end
  end.

(* build operations, tables, groups with the implementation's answers *)
Definition group_case := (list op * list (string * string) * list (string * option string) * list (string * string * string))%type.

Definition answers (c : group_case) : list string :=
  let '(ops, ft, jt, gs) := c in
  let s := run_ops (table_oracle ft jt) (init_gfa "gfa2" 1) ops in
  map (fun g => let '(n, k, _) := g in if String.eqb k "O" then answer_O s n else answer_U s n) gs.

Definition check_groups (c : group_case) : bool :=
  let '(ops, ft, jt, gs) := c in
  forallb (fun p => String.eqb (fst p) (snd (snd p))) (combine (answers c) gs).

Definition show_groups (c : group_case) : string := join_with ";" (answers c).
