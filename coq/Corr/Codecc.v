(* Corr/Codecc.v — running the codec model on enumerated strings and on (input, written) pairs. *)
From Coq Require Import List String Ascii ZArith Bool.
From GfaV Require Import Base.Py Base.Regex Gen.Tables Model.Align Model.Codec.
Import ListNotations.
Open Scope string_scope.

(* all strings over [alpha] of length exactly n, in lexicographic order of alphabet positions *)
Fixpoint words (alpha : list ascii) (n : nat) : list string :=
  match n with
  | O => [EmptyString]
  | S k => flat_map (fun c => map (String c) (words alpha k)) alpha
  end.

(* lengths 0..n, shorter first *)
Fixpoint enum (alpha : list ascii) (n : nat) : list string :=
  match n with
  | O => words alpha 0
  | S k => (enum alpha k ++ words alpha (S k))%list
  end.

Fixpoint bits_eqb (l : list bool) (bits : string) : bool :=
  match l, bits with
  | [], EmptyString => true
  | b :: l', String c r => Bool.eqb b (Ascii.eqb c "1") && bits_eqb l' r
  | _, _ => false
  end.

Fixpoint bits_of (l : list bool) : string :=
  match l with [] => EmptyString | b :: r => String (if b then "1" else "0")%char (bits_of r) end.

(* one enumeration case: datatype, alphabet, maximal length, the implementation's accept bits,
   and the JSON strings of the enumeration that Python's json accepted as array/object *)
Definition enum_case := (string * string * nat * string * list string)%type.

Definition json_table_oracle (ok : list string) : oracle :=
  mkOracle (fun s => s) (fun s => if in_strs s ok then Some s else None).

Definition model_bits (c : enum_case) : string :=
  let '(dt, alpha, n, _, jok) := c in
  bits_of (map (accepts (json_table_oracle jok) dt) (enum (list_ascii_of_string alpha) n)).

Definition check_enum (c : enum_case) : bool :=
  let '(dt, alpha, n, bits, jok) := c in
  bits_eqb (map (accepts (json_table_oracle jok) dt) (enum (list_ascii_of_string alpha) n)) bits.

(* one written-form case: datatype, input, accepted?, what the implementation wrote, float and json tables *)
Definition canon_case := (string * string * bool * string * list (string * string) * list (string * option string))%type.

Definition check_canon (c : canon_case) : bool :=
  let '(dt, s, acc, written, ft, jt) := c in
  let O := table_oracle ft jt in
  Bool.eqb (accepts O dt s) acc && (negb acc || String.eqb (canon O dt s) written).
