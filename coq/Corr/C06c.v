(* Corr/C06c.v — conversion model evaluated on the cases the implementation converted. *)
From Coq Require Import List String Ascii ZArith Bool.
From GfaV Require Import Base.Py Model.Align Model.Link Model.Convert Corr.C12c.
Import ListNotations.
Open Scope string_scope.

Definition pos_eqb (a b : pos) : bool := Z.eqb (fst a) (fst b) && Bool.eqb (snd a) (snd b).
Definition ostr_eqb (a b : option string) : bool :=
  match a, b with Some x, Some y => String.eqb x y | None, None => true | _, _ => false end.

Definition edge2_eqb (a b : edge2) : bool :=
  ostr_eqb (e_id a) (e_id b) && String.eqb (e_s1 a) (e_s1 b) && String.eqb (e_o1 a) (e_o1 b) &&
  String.eqb (e_s2 a) (e_s2 b) && String.eqb (e_o2 a) (e_o2 b) &&
  pos_eqb (e_b1 a) (e_b1 b) && pos_eqb (e_e1 a) (e_e1 b) && pos_eqb (e_b2 a) (e_b2 b) && pos_eqb (e_e2 a) (e_e2 b) &&
  aln_eqb_strict (e_aln a) (e_aln b).

Definition cont_eqb (a b : cont) : bool :=
  String.eqb (c_from a) (c_from b) && String.eqb (c_fo a) (c_fo b) && String.eqb (c_to a) (c_to b) &&
  String.eqb (c_too a) (c_too b) && pos_eqb (c_pos a) (c_pos b) && aln_eqb_strict (c_ov a) (c_ov b).

Definition gfa1edge_eqb (a b : gfa1edge) : bool :=
  match a, b with
  | GL x, GL y => link_eqb_strict x y
  | GC x, GC y => cont_eqb x y
  | _, _ => false
  end.

(* link -> E *)
Definition l2e_case := (link * option string * option Z * option Z * res edge2)%type.
Definition check_l2e (c : l2e_case) : bool :=
  let '(l, eid, lf, lt, expect) := c in res_eqb edge2_eqb (link_to_gfa2 l eid lf lt) expect.

Definition c2e_case := (cont * option string * option Z * option Z * res edge2)%type.
Definition check_c2e (c : c2e_case) : bool :=
  let '(k, eid, lf, lt, expect) := c in res_eqb edge2_eqb (cont_to_gfa2 k eid lf lt) expect.

Definition e2g_case := (edge2 * res gfa1edge)%type.
Definition check_e2g (c : e2g_case) : bool :=
  let '(e, expect) := c in res_eqb gfa1edge_eqb (edge_to_gfa1 e) expect.
