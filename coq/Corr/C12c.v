(* Corr/C12c.v — checkers used by the correspondence run of C12 (evaluated by vm_compute on
   cases written by harness/props/c12.py; the expected values come from the implementation). *)
From Coq Require Import List String Ascii ZArith Bool.
From GfaV Require Import Base.Py Gen.K_cigar Gen.K_fromto Model.Align Model.Link.
Import ListNotations.

Definition aln_eqb_strict (a b : alignment) : bool :=
  match a, b with
  | APlaceholder, APlaceholder => true
  | ACigar x, ACigar y => cigar_eqb x y
  | ATrace x, ATrace y => zlist_eqb x y
  | _, _ => false
  end.

Definition link_eqb_strict (a b : link) : bool :=
  String.eqb (l_from a) (l_from b) && String.eqb (l_fo a) (l_fo b) &&
  String.eqb (l_to a) (l_to b) && String.eqb (l_too a) (l_too b) && aln_eqb_strict (l_ov a) (l_ov b).

Definition exn_eqb (a b : exn) : bool := String.eqb (exn_name a) (exn_name b).

Definition res_eqb {A} (eq : A -> A -> bool) (a b : res A) : bool :=
  match a, b with
  | Ok x, Ok y => eq x y
  | Err e, Err f => exn_eqb e f
  | _, _ => false
  end.

(* cigar case: ops, expected complement, expected reference and query length *)
Definition cigar_case := (cigar * (cigar * (Z * Z)))%type.
Definition check_cigar (c : cigar_case) : bool :=
  let '(ops, (comp, (r, q))) := c in
  cigar_eqb (k_cigar_complement ops) comp &&
  Z.eqb (k_cigar_length_on_reference ops) r && Z.eqb (k_cigar_length_on_query ops) q.

(* link pair case *)
Record link_obs := mkObs {
  o_from_end : segend; o_to_end : segend;
  o_same : bool; o_compl : bool; o_eql : bool;
  o_complement : res link;
  o_compat_direct : bool; o_compat_compl : res bool; o_compat : res bool; o_compat_nocompl : res bool }.

Definition link_case := (link * link * link_obs)%type.
Definition check_link (c : link_case) : bool :=
  let '(a, b, o) := c in
  segend_eqb (from_end a) (o_from_end o) && segend_eqb (to_end a) (o_to_end o) &&
  Bool.eqb (is_same a b) (o_same o) && Bool.eqb (is_complement a b) (o_compl o) &&
  Bool.eqb (is_eql a b) (o_eql o) &&
  res_eqb link_eqb_strict (link_complement a) (o_complement o) &&
  Bool.eqb (is_compatible_direct a (oriented_from b) (oriented_to b) (l_ov b)) (o_compat_direct o) &&
  res_eqb Bool.eqb (is_compatible_complement a (oriented_from b) (oriented_to b) (l_ov b)) (o_compat_compl o) &&
  res_eqb Bool.eqb (is_compatible a (oriented_from b) (oriented_to b) (l_ov b) true) (o_compat o) &&
  res_eqb Bool.eqb (is_compatible a (oriented_from b) (oriented_to b) (l_ov b) false) (o_compat_nocompl o).
