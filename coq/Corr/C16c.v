(* Corr/C16c.v — components and counters of the model state after a history, against the implementation's answers. *)
From Coq Require Import List String Ascii ZArith Bool.
From GfaV Require Import Base.Py Model.Codec Model.Graph Model.Topology Proofs.GraphP Corr.Graphc.
Import ListNotations.
Open Scope string_scope.

Definition canon_components (cs : list (list string)) : string :=
  join_with "|" (sort_strs (map (fun c => join_with "," (sort_strs c)) cs)).

(* version, operations, components (canonical), n_dovetails, n_containments, n_internals, n_dead_ends, tables *)
Definition topo_case := (string * list op * string * (nat * nat * nat * nat) * list (string * string) * list (string * option string))%type.

Definition check_topo (c : topo_case) : bool :=
  let '(ver, ops, comps, (nd, nc, ni, nde), ft, jt) := c in
  let s := run_ops (table_oracle ft jt) (init_gfa ver 1) ops in
  match connected_components s with
  | Ok cs => String.eqb (canon_components cs) comps
  | Err _ => false
  end && Nat.eqb (n_dovetails s) nd && Nat.eqb (n_containments s) nc && Nat.eqb (n_internals s) ni &&
  Nat.eqb (n_dead_ends s) nde &&
  (* the counters equal the number of records of each class in the document *)
  Nat.eqb (count_class s "L") nd && Nat.eqb (count_class s "C") nc && Nat.eqb (count_class s "I") ni.

Definition show_topo (c : topo_case) : string :=
  let '(ver, ops, comps, _, ft, jt) := c in
  let s := run_ops (table_oracle ft jt) (init_gfa ver 1) ops in
  match connected_components s with
  | Ok cs => (canon_components cs ++ "#" ++ str_of_Z (Z.of_nat (n_dovetails s)) ++ "," ++ str_of_Z (Z.of_nat (n_containments s)) ++ "," ++
              str_of_Z (Z.of_nat (n_internals s)) ++ "," ++ str_of_Z (Z.of_nat (n_dead_ends s)) ++ "#" ++
              str_of_Z (Z.of_nat (count_class s "L")) ++ "," ++ str_of_Z (Z.of_nat (count_class s "C")) ++ "," ++ str_of_Z (Z.of_nat (count_class s "I")))%string
  | Err e => exn_name e
  end.
