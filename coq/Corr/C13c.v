(* Corr/C13c.v — the version automaton evaluated on the documents the implementation built. *)
From Coq Require Import List String Ascii ZArith Bool.
From GfaV Require Import Base.Py Model.Version Proofs.VersionP.
Import ListNotations.

Definition over_eqb (a b : option ver) : bool :=
  match a, b with Some x, Some y => ver_eqb x y | None, None => true | _, _ => false end.

(* explicit version, rgfa, kinds in arrival order, version the implementation ended with (None = VersionError) *)
Definition ver_case := (option ver * bool * list kind * option ver)%type.
Definition check_ver (c : ver_case) : bool :=
  let '(v0, rgfa, ks, expect) := c in over_eqb (outcome_ver (build (mkCfg v0 rgfa) ks)) expect.
