(* Corr/Linec.v — parse_line / line_to_s evaluated on the lines the implementation constructed and wrote. *)
From Coq Require Import List String Ascii ZArith Bool.
From GfaV Require Import Base.Py Base.Regex Model.Align Model.Codec Model.Line Corr.C12c.
Import ListNotations.
Open Scope string_scope.

(* vlevel, version, text, outcome of the implementation (written text or exception), float table, json table *)
Definition line_case := (nat * option string * string * res string * list (string * string) * list (string * option string))%type.

Definition check_line (c : line_case) : bool :=
  let '(vl, ver, s, expect, ft, jt) := c in
  let O := table_oracle ft jt in
  match parse_line O vl ver s, expect with
  | Ok l, Ok w => String.eqb (line_to_s O l) w
  | Err e, Err f => exn_eqb e f
  | _, _ => false
  end.

(* only acceptance is compared (used where the exception class of the model is not meant to be exact) *)
Definition check_line_accept (c : line_case) : bool :=
  let '(vl, ver, s, expect, ft, jt) := c in
  let O := table_oracle ft jt in
  match parse_line O vl ver s, expect with
  | Ok l, Ok w => String.eqb (line_to_s O l) w
  | Err (G _), Err (G _) => true
  | Err e, Err f => exn_eqb e f
  | _, _ => false
  end.

(* only the kind of outcome is compared (level 0: what is written for unvalidated input is not modelled) *)
Definition check_line_kind (c : line_case) : bool :=
  let '(vl, ver, s, expect, ft, jt) := c in
  let O := table_oracle ft jt in
  match parse_line O vl ver s, expect with
  | Ok _, Ok _ => true
  | Err (G _), Err (G _) => true
  | Err e, Err f => exn_eqb e f
  | _, _ => false
  end.

Definition show_line (c : line_case) : string :=
  let '(vl, ver, s, expect, ft, jt) := c in
  let O := table_oracle ft jt in
  match parse_line O vl ver s with
  | Ok l => "OK:" ++ line_to_s O l
  | Err e => "ERR:" ++ exn_name e
  end.
