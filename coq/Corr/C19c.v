(* Corr/C19c.v — the copy mode Cloning.clone applies to each stored value, model against what was observed on real
   lines (same object / distinct object with disjoint parts / rendered to a string). *)
From Coq Require Import List String Ascii ZArith Bool.
From GfaV Require Import Base.Py Model.Clone.
Import ListNotations.
Open Scope string_scope.

Definition kind_of (s : string) : vkind :=
  if String.eqb s "str" then VStr else if String.eqb s "list" then VList else if String.eqb s "oriented" then VOriented
  else if String.eqb s "fieldarray" then VFieldArray else if String.eqb s "immutable" then VOtherImmutable else VOtherMutable.

Definition mode_name (m : mode) : string := match m with Share => "share" | Deep => "deep" | Render => "render" end.

(* reference field, JSON datatype, kind of the stored value, observed mode ("any" when the value has no mutable part) *)
Definition clone_case := (bool * bool * string * string)%type.

Definition check_clone (c : clone_case) : bool :=
  let '(r, j, k, obs) := c in
  String.eqb obs "any" || String.eqb (mode_name (clone_mode r j (kind_of k))) obs.

Definition show_clone (c : clone_case) : string :=
  let '(r, j, k, obs) := c in mode_name (clone_mode r j (kind_of k)).
