(* Corr/C11c.v — the generated classification kernels evaluated on the cases the implementation ran. *)
From Coq Require Import List String Ascii ZArith Bool.
From GfaV Require Import Base.Py Gen.K_edge2 Gen.K_fromto Gen.K_togfa1 Spec.EdgeSpec.
Import ListNotations.
Open Scope string_scope.

(* o1 o2 b1 e1 b2 e2, observed: collection on segment 1, on segment 2, class letter, sid1-is-from *)
Definition e_case := (string * string * (pos * pos) * (pos * pos) * (string * string * string * option bool))%type.

Definition check_E (c : e_case) : bool :=
  let '(o1, o2, (b1, e1), (b2, e2), (k1, k2, cl, fr)) := c in
  match k_substring_type b1 e1, k_substring_type b2 e2 with
  | Ok (st1, _), Ok (st2, _) =>
      String.eqb (k_edge2_refkey_for_s o1 o2 1 st1 st2) k1 &&
      String.eqb (k_edge2_refkey_for_s o1 o2 2 st1 st2) k2 &&
      String.eqb (k_alignment_type_for_substring_types o1 o2 st1 st2) cl &&
      match k_is_sid1_from b1 e1 o1 b2 e2 o2, fr with
      | Ok x, Some y => Bool.eqb x y
      | Err _, None => true
      | _, _ => false
      end
  | _, _ => false
  end.

Definition g_case := (string * string * (string * string))%type.
Definition check_G (c : g_case) : bool :=
  let '(o1, o2, (k1, k2)) := c in
  match k_gap_refkey_for_s o1 o2 1, k_gap_refkey_for_s o1 o2 2 with
  | Ok a, Ok b => String.eqb a k1 && String.eqb b k2
  | _, _ => false
  end.

Definition l_case := (string * string * (string * string))%type.
Definition check_L (c : l_case) : bool :=
  let '(fo, too, (k1, k2)) := c in
  String.eqb ("dovetails_" ++ snd (k_from_end "s" fo)) k1 && String.eqb ("dovetails_" ++ snd (k_to_end "s" too)) k2.
