(* Corr/Graphc.v — canonical observation of a graph state and the history checker. *)
From Coq Require Import List String Ascii ZArith Bool.
From GfaV Require Import Base.Py Base.Regex Gen.Tables Model.Align Model.Link Model.Codec Model.Line Model.Graph Corr.C12c.
Import ListNotations.
Open Scope string_scope.
Open Scope list_scope.

Definition str_leb (a b : string) : bool := match String.compare a b with Gt => false | _ => true end.

Fixpoint insert_sorted (x : string) (l : list string) : list string :=
  match l with
  | [] => [x]
  | y :: r => if str_leb x y then x :: l else y :: insert_sorted x r
  end.
Definition sort_strs (l : list string) : list string := fold_right insert_sorted [] l.

Definition bar (l : list string) : string := join_with "|" l.
Definition tabs := String tab EmptyString.

Definition all_colls : list string :=
  ["dovetails_L"; "dovetails_R"; "edges_to_contained"; "edges_to_containers"; "paths"; "sets";
   "gaps_L"; "gaps_R"; "fragments"; "internals"].

(* collections a line of this kind exposes (DEPENDENT_LINES + OTHER_REFERENCES of its class, generated) *)
Definition colls_of (k : rk) : list string :=
  match k with
  | KS1 => T_SegmentGFA1_DEPENDENT_LINES ++ T_SegmentGFA1_OTHER_REFERENCES
  | KS2 => T_SegmentGFA2_DEPENDENT_LINES ++ T_SegmentGFA2_OTHER_REFERENCES
  | KL => T_Link_DEPENDENT_LINES | KE => T_EdgeGFA2_DEPENDENT_LINES ++ T_EdgeGFA2_OTHER_REFERENCES
  | KO => T_Ordered_DEPENDENT_LINES | KU => T_Unordered_DEPENDENT_LINES | KUnk => T_Unknown_DEPENDENT_LINES
  | KGp => T_Gap_DEPENDENT_LINES ++ T_Gap_OTHER_REFERENCES
  | _ => []
  end.

Definition step_link (s : gfa) (st : oseg * oseg * alignment) : string :=
  let '(a, b, ov) := st in
  match search_link s a b ov with
  | Some l => (gl_text l ++ ":" ++ (if is_compatible_direct (link_value l) a b ov then "+" else "-"))%string
  | None => "?"
  end.

Definition obs_line (s : gfa) (l : gl) : list string :=
  let base := bar ["L"; if g_virtual l then "1" else "0"; gl_text l] in
  let named := match name_of l with Some n => in_namespace l | None => false end in
  let coll_rows :=
    match name_of l with
    | Some n =>
        if in_namespace l then
          map (fun c => bar ["B"; gl_text l; c; join_with ";" (sort_strs (map gl_text
                 (filter (fun r => (* a segment collection only lists lines that mention it as a segment *)
                            existsb (fun m => String.eqb (m_target m) n && String.eqb (m_coll m) c) (mentions r))
                         (backrefs s n c))))])
              (filter (fun c => in_strs c (colls_of (g_rk l))) all_colls)
        else []
    | None => []
    end in
  let link_rows :=
    match g_rk l with
    | KL => [bar ["B"; gl_text l; "paths"; join_with ";" (sort_strs
               (flat_map (fun p => match g_rk p with
                                   | KP => repeat (gl_text p) (path_uses s p l)
                                   | _ => [] end) (lines s)))]]
    | KP => [bar ["P"; gl_text l; join_with ";" (map (step_link s) (path_steps (g_pos l)))]]
    | _ => []
    end in
  base :: coll_rows ++ link_rows.

Definition obs (s : gfa) : string :=
  join_with (String nl EmptyString) (sort_strs (flat_map (obs_line s) (lines s))).

(* history case: version, vlevel, operations with the implementation's outcome and observation after each *)
Definition hist_case := (string * nat * list (op * option exn * string) * list (string * string) * list (string * option string))%type.

Fixpoint replay_hist (O : oracle) (s : gfa) (h : list (op * option exn * string)) : bool :=
  match h with
  | [] => true
  | (o, e, ob) :: r =>
      let '(s', e') := apply O s o in
      (match e, e' with
       | None, None => true
       | Some a, Some b => exn_eqb a b || (match a, b with G _, G _ => true | _, _ => false end)
       | _, _ => false
       end) && String.eqb (obs s') ob && replay_hist O s' r
  end.

Definition check_hist (c : hist_case) : bool :=
  let '(ver, vl, h, ft, jt) := c in
  replay_hist (table_oracle ft jt) (init_gfa ver vl) h.

(* for diagnosis: the model's outcome and observation after each operation *)
Fixpoint show_hist_from (O : oracle) (s : gfa) (h : list (op * option exn * string)) : string :=
  match h with
  | [] => ""
  | (o, e, ob) :: r =>
      let '(s', e') := apply O s o in
      ("@@" ++ (match e' with None => "ok" | Some x => exn_name x end) ++ String nl EmptyString ++ obs s' ++
       String nl EmptyString ++ show_hist_from O s' r)%string
  end.
Definition show_hist (c : hist_case) : string :=
  let '(ver, vl, h, ft, jt) := c in show_hist_from (table_oracle ft jt) (init_gfa ver vl) h.

(* the first operation at which model and implementation differ: rank, model outcome, model observation *)
Fixpoint first_diff_from (O : oracle) (i : nat) (s : gfa) (h : list (op * option exn * string)) : string :=
  match h with
  | [] => "none"
  | (o, e, ob) :: r =>
      let '(s', e') := apply O s o in
      let same_out := match e, e' with
                      | None, None => true
                      | Some a, Some b => exn_eqb a b || (match a, b with G _, G _ => true | _, _ => false end)
                      | _, _ => false end in
      if same_out && String.eqb (obs s') ob then first_diff_from O (S i) s' r
      else (Model.Codec.str_of_Z (Z.of_nat i) ++ "@@" ++ (match e' with None => "ok" | Some x => exn_name x end) ++
            "@@" ++ obs s')%string
  end.
Definition first_diff (c : hist_case) : string :=
  let '(ver, vl, h, ft, jt) := c in first_diff_from (table_oracle ft jt) 0 (init_gfa ver vl) h.
