(* Corr/C15c.v — Gfa.multiply of the model against the implementation's outcome and observation. *)
From Coq Require Import List String Ascii ZArith Bool.
From GfaV Require Import Base.Py Model.Codec Model.Graph Model.Multiply Proofs.GraphP Corr.C12c Corr.Graphc.
Import ListNotations.
Open Scope string_scope.

(* version, build operations, segment, factor, copy names, policy, outcome, observation, tables *)
Definition mult_case := (string * list op * string * Z * option (list string) * option string * option exn * string *
                         list (string * string) * list (string * option string))%type.

Definition run_mult (c : mult_case) : res gfa * gfa :=
  let '(ver, ops, n, k, names, pol, e, ob, ft, jt) := c in
  let s := run_ops (table_oracle ft jt) (init_gfa ver 1) ops in
  (multiply s n k names pol, s).

Definition check_mult (c : mult_case) : bool :=
  let '(ver, ops, n, k, names, pol, e, ob, ft, jt) := c in
  match run_mult c, e with
  | (Ok s', _), None => String.eqb (obs s') ob
  | (Err a, s), Some b => (exn_eqb a b || (match a, b with G _, G _ => true | _, _ => false end)) && (negb (Z.ltb k 2) || String.eqb (obs s) ob)   (* a refusal after the copies were made (unknown policy) is not rolled back *)
  | _, _ => false
  end.

Definition show_mult (c : mult_case) : string :=
  match run_mult c with
  | (Ok s', _) => ("ok@@" ++ obs s')%string
  | (Err a, s) => (exn_name a ++ "@@" ++ obs s)%string
  end.
