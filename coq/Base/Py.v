(* Base/Py.v — outcomes of Python calls: gfapy errors, foreign (builtin) exceptions,
   and the state-and-exception monad used by the imperative part of the model.
   No proofs about gfapy here. *)
From Coq Require Import List String Ascii ZArith Bool.
Import ListNotations.
Open Scope string_scope.

(* gfapy/error.py — one constructor per class; Gen.Tables.error_classes is compared with
   [gerr_names] in Proofs/GenTotal.v, so a removed or renamed class is a failed obligation. *)
Inductive gerr :=
| EError | EVersion | ERuntime | EValue | EFormat | EType | EArgument
| ENotUnique | EInconsistency | ENotFound | EAssertion.

Definition gerr_name (e : gerr) : string :=
  match e with
  | EError => "Error" | EVersion => "VersionError" | ERuntime => "RuntimeError"
  | EValue => "ValueError" | EFormat => "FormatError" | EType => "TypeError"
  | EArgument => "ArgumentError" | ENotUnique => "NotUniqueError"
  | EInconsistency => "InconsistencyError" | ENotFound => "NotFoundError"
  | EAssertion => "AssertionError"
  end.

Definition gerr_all : list gerr :=
  [EError; EVersion; ERuntime; EValue; EFormat; EType; EArgument; ENotUnique;
   EInconsistency; ENotFound; EAssertion].

(* builtin exceptions that the code can let escape *)
Inductive pyexn :=
| IndexError | KeyError | AttributeError | PyTypeError | PyValueError
| RecursionError | FallThroughNone | OtherExn.

Definition pyexn_name (e : pyexn) : string :=
  match e with
  | IndexError => "IndexError" | KeyError => "KeyError" | AttributeError => "AttributeError"
  | PyTypeError => "builtins.TypeError" | PyValueError => "builtins.ValueError"
  | RecursionError => "RecursionError" | FallThroughNone => "None" | OtherExn => "Exception"
  end.

Inductive exn := G (e : gerr) | Foreign (p : pyexn).

Definition exn_name (e : exn) : string :=
  match e with G g => gerr_name g | Foreign p => pyexn_name p end.

Inductive res (A : Type) := Ok (a : A) | Err (e : exn).
Arguments Ok {A} a.
Arguments Err {A} e.

Definition rbind {A B} (r : res A) (f : A -> res B) : res B :=
  match r with Ok a => f a | Err e => Err e end.
Definition rmap {A B} (f : A -> B) (r : res A) : res B :=
  match r with Ok a => Ok (f a) | Err e => Err e end.
Definition is_ok {A} (r : res A) : bool := match r with Ok _ => true | Err _ => false end.
Definition is_foreign {A} (r : res A) : bool :=
  match r with Err (Foreign _) => true | _ => false end.

Notation "'do' x <- r ;; k" := (rbind r (fun x => k))
  (at level 200, x name, r at level 100, k at level 200, right associativity).

Fixpoint rmapM {A B} (f : A -> res B) (l : list A) : res (list B) :=
  match l with
  | [] => Ok []
  | x :: xs => do y <- f x ;; do ys <- rmapM f xs ;; Ok (y :: ys)
  end.

Fixpoint rforM {A} (f : A -> res unit) (l : list A) : res unit :=
  match l with
  | [] => Ok tt
  | x :: xs => do _ <- f x ;; rforM f xs
  end.

(* state + exception; the (possibly partially mutated) state is returned on error too *)
Definition M (S A : Type) := S -> res A * S.
Definition mret {S A} (a : A) : M S A := fun s => (Ok a, s).
Definition mfail {S A} (e : exn) : M S A := fun s => (Err e, s).
Definition mbind {S A B} (m : M S A) (f : A -> M S B) : M S B :=
  fun s => match m s with
           | (Ok a, s') => f a s'
           | (Err e, s') => (Err e, s')
           end.
Definition mget {S} : M S S := fun s => (Ok s, s).
Definition mput {S} (s : S) : M S unit := fun _ => (Ok tt, s).
Definition mlift {S A} (r : res A) : M S A := fun s => (r, s).

Notation "'mdo' x <- m ;; k" := (mbind m (fun x => k))
  (at level 200, x name, m at level 100, k at level 200, right associativity).

(* string/Z helpers shared by generated code *)
Definition in_strs (s : string) (l : list string) : bool := existsb (String.eqb s) l.

Lemma in_strs_In s l : in_strs s l = true <-> In s l.
Proof.
  unfold in_strs. rewrite existsb_exists. split.
  - intros [x [Hx He]]. apply String.eqb_eq in He. subst. exact Hx.
  - intros H. exists s. split; [exact H | apply String.eqb_refl].
Qed.

Fixpoint assoc {B} (k : string) (l : list (string * B)) : option B :=
  match l with
  | [] => None
  | (k', v) :: r => if String.eqb k k' then Some v else assoc k r
  end.

Fixpoint list_str_eqb (a b : list string) : bool :=
  match a, b with
  | [], [] => true
  | x :: a', y :: b' => String.eqb x y && list_str_eqb a' b'
  | _, _ => false
  end.

Lemma list_str_eqb_eq a : forall b, list_str_eqb a b = true <-> a = b.
Proof.
  induction a as [|x a IH]; intros [|y b]; simpl; split; intros H; try discriminate; try reflexivity.
  - apply andb_true_iff in H. destruct H as [H1 H2]. apply String.eqb_eq in H1. apply IH in H2. subst. reflexivity.
  - injection H as -> ->. rewrite String.eqb_refl. simpl. apply IH. reflexivity.
Qed.

(* Python compares str by code point, lexicographically *)
Definition str_ltb (a b : string) : bool :=
  match String.compare a b with Lt => true | _ => false end.
Definition str_gtb (a b : string) : bool :=
  match String.compare a b with Gt => true | _ => false end.
