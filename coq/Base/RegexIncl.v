(* Base/RegexIncl.v — a checked certificate for language inclusion of two regular expressions.
   `seen` is a list of pairs closed under simplified derivatives for all 256 characters in which the left member
   being nullable implies the right member being nullable; closure is a boolean computed by vm_compute, and it implies
   inclusion of the languages for strings of every length. *)
From Coq Require Import List String Ascii Bool NArith Arith Lia.
From GfaV Require Import Base.Regex.
Import ListNotations.
Open Scope list_scope.

(* language-preserving simplifications *)
Definition is_void (r : re) : bool := match r with Void => true | _ => false end.
Definition is_eps (r : re) : bool := match r with Eps => true | _ => false end.

(* alternatives are kept flattened and without repetitions, so that derivatives stay in a finite set *)
Fixpoint alts (r : re) : list re :=
  match r with
  | Alt a b => alts a ++ alts b
  | Void => []
  | _ => [r]
  end.

Fixpoint dedupe (l : list re) (seen : list re) : list re :=
  match l with
  | [] => []
  | x :: r => if existsb (re_eqb x) seen then dedupe r seen else x :: dedupe r (x :: seen)
  end.

Fixpoint mk_alt (l : list re) : re :=
  match l with
  | [] => Void
  | [x] => x
  | x :: r => Alt x (mk_alt r)
  end.

Definition salt (a b : re) : re := mk_alt (dedupe (alts a ++ alts b) []).
Definition scat (a b : re) : re :=
  if is_void a || is_void b then Void else if is_eps a then b else if is_eps b then a else Cat a b.

Fixpoint sderiv (c : ascii) (r : re) : re :=
  match r with
  | Void => Void
  | Eps => Void
  | Cls cs => if in_cset c cs then Eps else Void
  | Cat a b => if nullable a then salt (scat (sderiv c a) b) (sderiv c b) else scat (sderiv c a) b
  | Alt a b => salt (sderiv c a) (sderiv c b)
  | Star a => scat (sderiv c a) (Star a)
  end.

Lemma alts_spec : forall r s, lang r s <-> exists x, In x (alts r) /\ lang x s.
Proof.
  induction r as [| | cs | a IHa b IHb | a IHa b IHb | a IHa]; intro s; cbn [alts].
  - split; [intro H; inversion H|intros [x [[] _]]].
  - split; [intro H; exists Eps; split; [left; reflexivity|exact H]|intros [x [[<-|[]] H]]; exact H].
  - split; [intro H; eexists; split; [left; reflexivity|exact H]|intros [x [[<-|[]] H]]; exact H].
  - split; [intro H; eexists; split; [left; reflexivity|exact H]|intros [x [[<-|[]] H]]; exact H].
  - split.
    + intro H. apply alt_inv in H. destruct H as [H|H].
      * apply IHa in H. destruct H as [x [Hx L]]. exists x. split; [apply in_or_app; left; exact Hx|exact L].
      * apply IHb in H. destruct H as [x [Hx L]]. exists x. split; [apply in_or_app; right; exact Hx|exact L].
    + intros [x [Hx L]]. apply in_app_or in Hx. destruct Hx as [Hx|Hx].
      * apply L_altl. apply IHa. eauto.
      * apply L_altr. apply IHb. eauto.
  - split; [intro H; eexists; split; [left; reflexivity|exact H]|intros [x [[<-|[]] H]]; exact H].
Qed.

Lemma mk_alt_spec : forall l s, lang (mk_alt l) s <-> exists x, In x l /\ lang x s.
Proof.
  induction l as [|x r IH]; intro s; cbn [mk_alt].
  - split; [intro H; inversion H|intros [y [[] _]]].
  - destruct r as [|y r'].
    + split; [intro H; exists x; split; [left; reflexivity|exact H]|intros [z [[<-|[]] H]]; exact H].
    + split.
      * intro H. apply alt_inv in H. destruct H as [H|H]; [exists x; split; [left; reflexivity|exact H]|].
        apply IH in H. destruct H as [z [Hz L]]. exists z. split; [right; exact Hz|exact L].
      * intros [z [[<-|Hz] L]]; [apply L_altl; exact L|apply L_altr; apply IH; eauto].
Qed.

Lemma dedupe_spec : forall l seen x, In x l -> In x (dedupe l seen) \/ In x seen.
Proof.
  induction l as [|y r IH]; intros seen x H; [destruct H|]. cbn [dedupe].
  destruct (existsb (re_eqb y) seen) eqn:E.
  - destruct H as [<-|H]; [|exact (IH _ _ H)].
    right. apply existsb_exists in E. destruct E as [z [Hz Ez]]. apply re_eqb_eq in Ez. subst. exact Hz.
  - destruct H as [<-|H]; [left; left; reflexivity|].
    destruct (IH (y :: seen) x H) as [A|[<-|A]]; [left; right; exact A|left; left; reflexivity|right; exact A].
Qed.

Lemma dedupe_sub : forall l seen x, In x (dedupe l seen) -> In x l.
Proof.
  induction l as [|y r IH]; intros seen x H; cbn [dedupe] in H; [destruct H|].
  destruct (existsb (re_eqb y) seen); [right; exact (IH _ _ H)|].
  destruct H as [<-|H]; [left; reflexivity|right; exact (IH _ _ H)].
Qed.

Lemma salt_spec a b s : lang (salt a b) s <-> lang (Alt a b) s.
Proof.
  unfold salt. rewrite mk_alt_spec. split.
  - intros [x [Hx L]]. apply dedupe_sub in Hx. apply in_app_or in Hx. destruct Hx as [Hx|Hx].
    + apply L_altl. apply alts_spec. eauto.
    + apply L_altr. apply alts_spec. eauto.
  - intro H. apply alt_inv in H. destruct H as [H|H]; apply alts_spec in H; destruct H as [x [Hx L]]; exists x; (split; [|exact L]).
    + destruct (dedupe_spec (alts a ++ alts b) [] x (in_or_app _ _ _ (or_introl Hx))) as [A|[]]. exact A.
    + destruct (dedupe_spec (alts a ++ alts b) [] x (in_or_app _ _ _ (or_intror Hx))) as [A|[]]. exact A.
Qed.

Lemma string_app_nil_r (s : string) : (s ++ "")%string = s.
Proof. induction s as [|c s IH]; cbn; [reflexivity|now rewrite IH]. Qed.

Lemma scat_spec a b s : lang (scat a b) s <-> lang (Cat a b) s.
Proof.
  unfold scat. destruct (is_void a) eqn:Va.
  - destruct a; try discriminate. cbn [orb]. split; intro H; [inversion H|].
    apply cat_inv in H. destruct H as [s1 [s2 [_ [H _]]]]. inversion H.
  - destruct (is_void b) eqn:Vb.
    + destruct b; try discriminate. cbn [orb]. split; intro H; [inversion H|].
      apply cat_inv in H. destruct H as [s1 [s2 [_ [_ H]]]]. inversion H.
    + cbn [orb]. destruct (is_eps a) eqn:Ea.
      * destruct a; try discriminate. split; intro H.
        -- change s with (EmptyString ++ s)%string. constructor; [constructor|exact H].
        -- apply cat_inv in H. destruct H as [s1 [s2 [-> [H1 H2]]]]. inversion H1; subst. exact H2.
      * destruct (is_eps b) eqn:Eb; [|tauto].
        destruct b; try discriminate. split; intro H.
        -- rewrite <- (string_app_nil_r s). constructor; [exact H|constructor].
        -- apply cat_inv in H. destruct H as [s1 [s2 [-> [H1 H2]]]]. inversion H2; subst. rewrite string_app_nil_r. exact H1.
Qed.

Lemma sderiv_spec : forall r c s, lang (sderiv c r) s <-> lang (deriv c r) s.
Proof.
  induction r as [| | cs | a IHa b IHb | a IHa b IHb | a IHa]; intros c s; cbn [sderiv deriv]; try tauto.
  - destruct (nullable a).
    + rewrite salt_spec. split; intro H; apply alt_inv in H; destruct H as [H|H].
      * apply L_altl. apply scat_spec in H. apply cat_inv in H. destruct H as [s1 [s2 [-> [H1 H2]]]].
        constructor; [apply IHa; exact H1|exact H2].
      * apply L_altr. apply IHb. exact H.
      * apply L_altl. apply scat_spec. apply cat_inv in H. destruct H as [s1 [s2 [-> [H1 H2]]]].
        constructor; [apply IHa; exact H1|exact H2].
      * apply L_altr. apply IHb. exact H.
    + rewrite scat_spec. split; intro H; apply cat_inv in H; destruct H as [s1 [s2 [-> [H1 H2]]]];
        (constructor; [apply IHa; exact H1|exact H2]).
  - rewrite salt_spec. split; intro H; apply alt_inv in H; destruct H as [H|H];
      first [apply L_altl; apply IHa; exact H | apply L_altr; apply IHb; exact H].
  - rewrite scat_spec. split; intro H; apply cat_inv in H; destruct H as [s1 [s2 [-> [H1 H2]]]];
      (constructor; [apply IHa; exact H1|exact H2]).
Qed.

Lemma sderiv_lang r c s : lang (sderiv c r) s <-> lang r (String c s).
Proof. rewrite sderiv_spec. apply deriv_spec. Qed.

Definition all_ascii : list ascii := map ascii_of_nat (seq 0 256).

Lemma all_ascii_complete c : In c all_ascii.
Proof.
  unfold all_ascii. apply in_map_iff. exists (nat_of_ascii c). split; [apply ascii_nat_embedding|].
  apply in_seq. pose proof (nat_ascii_bounded c). lia.
Qed.

Definition pair_mem (p : re * re) (l : list (re * re)) : bool :=
  existsb (fun q => re_eqb (fst p) (fst q) && re_eqb (snd p) (snd q)) l.

Definition closed (seen : list (re * re)) : bool :=
  forallb (fun p => implb (nullable (fst p)) (nullable (snd p)) &&
                    forallb (fun c => pair_mem (sderiv c (fst p), sderiv c (snd p)) seen) all_ascii) seen.

Theorem closed_inclusion seen : closed seen = true ->
  forall s a b, In (a, b) seen -> lang a s -> lang b s.
Proof.
  intro C. unfold closed in C. rewrite forallb_forall in C.
  induction s as [|c s IH]; intros a b Hin Ha.
  - specialize (C _ Hin). apply andb_true_iff in C. destruct C as [N _]. cbn [fst snd] in N.
    apply nullable_spec in Ha. rewrite Ha in N. cbn in N. apply nullable_spec. exact N.
  - specialize (C _ Hin). apply andb_true_iff in C. destruct C as [_ D]. cbn [fst snd] in D.
    rewrite forallb_forall in D. specialize (D c (all_ascii_complete c)).
    unfold pair_mem in D. apply existsb_exists in D. destruct D as [[a' b'] [Hq E]]. cbn [fst snd] in E.
    apply andb_true_iff in E. destruct E as [E1 E2]. apply re_eqb_eq in E1. apply re_eqb_eq in E2. subst a' b'.
    apply sderiv_lang. apply (IH _ _ Hq). apply sderiv_lang. exact Ha.
Qed.

(* the certificate is computed by a bounded worklist; only `closed` is trusted to be checked *)
Fixpoint explore (fuel : nat) (todo seen : list (re * re)) : list (re * re) :=
  match fuel with
  | O => seen
  | S f =>
      match todo with
      | [] => seen
      | p :: rest =>
          if pair_mem p seen then explore f rest seen
          else explore f (fold_right (fun q acc => if pair_mem q acc || pair_mem q (p :: seen) then acc else q :: acc) rest
                                    (map (fun c => (sderiv c (fst p), sderiv c (snd p))) all_ascii)) (p :: seen)
      end
  end.

Definition certified (seen : list (re * re)) (a b : re) : bool := pair_mem (a, b) seen && closed seen.

Theorem certified_sound seen a b : certified seen a b = true -> forall s, matches a s = true -> matches b s = true.
Proof.
  unfold certified. intro H. apply andb_true_iff in H. destruct H as [M C]. intros s Hs.
  apply matches_spec. apply matches_spec in Hs.
  unfold pair_mem in M. apply existsb_exists in M. destruct M as [[a' b'] [Hq E]]. cbn [fst snd] in E.
  apply andb_true_iff in E. destruct E as [E1 E2]. apply re_eqb_eq in E1. apply re_eqb_eq in E2. subst a' b'.
  exact (closed_inclusion _ C s a b Hq Hs).
Qed.

Definition fuel4000 : nat := 4000.
Definition included (a b : re) : bool := certified (explore fuel4000 [(a, b)] []) a b.

Theorem included_sound a b : included a b = true -> forall s, matches a s = true -> matches b s = true.
Proof. exact (certified_sound (explore fuel4000 [(a, b)] []) a b). Qed.

(* '$' of Python: R$ accepts what R followed by an optional newline accepts *)
Lemma drop_last_nl_spec : forall s t, drop_last_nl s = Some t -> s = (t ++ String nl EmptyString)%string.
Proof.
  induction s as [|c s IH]; intros t H; cbn [drop_last_nl] in H; [discriminate|].
  destruct s as [|d s'].
  - destruct (Ascii.eqb c nl) eqn:E; [|discriminate]. injection H as <-. apply Ascii.eqb_eq in E. subst. reflexivity.
  - destruct (drop_last_nl (String d s')) as [t'|] eqn:D; [|discriminate]. injection H as <-.
    cbn [String.append]. f_equal. apply IH. reflexivity.
Qed.

Theorem py_fullmatch_regex r s : py_fullmatch r s = true -> matches (Cat r (Opt (Chr nl))) s = true.
Proof.
  unfold py_fullmatch. intro H. apply matches_spec. apply orb_true_iff in H. destruct H as [H|H].
  - apply matches_spec in H. rewrite <- (string_app_nil_r s). constructor; [exact H|]. apply L_altl. constructor.
  - destruct (drop_last_nl s) as [t|] eqn:D; [|discriminate]. apply matches_spec in H.
    rewrite (drop_last_nl_spec _ _ D). constructor; [exact H|]. apply L_altr. constructor.
    vm_compute. reflexivity.
Qed.
