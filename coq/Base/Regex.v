(* Base/Regex.v — regular expressions over 8-bit characters, Brzozowski matcher,
   relational semantics [lang], and the Python anchoring conventions.
   [matches_spec] is the only bridge the property proofs use. *)
From Coq Require Import List String Ascii NArith Bool Lia.
Import ListNotations.

(* a character set is a list of inclusive code ranges *)
Definition cset := list (N * N).

Definition in_cset (c : ascii) (cs : cset) : bool :=
  existsb (fun r => (fst r <=? N_of_ascii c)%N && (N_of_ascii c <=? snd r)%N) cs.

Inductive re :=
| Void                      (* matches nothing *)
| Eps                       (* empty string *)
| Cls (cs : cset)           (* one character of the set *)
| Cat (a b : re)
| Alt (a b : re)
| Star (a : re).

Definition Plus (a : re) := Cat a (Star a).
Definition Opt (a : re) := Alt Eps a.
Definition Chr (c : ascii) : re := Cls [(N_of_ascii c, N_of_ascii c)].
(* Python's '.' without DOTALL: anything but newline *)
Definition Dot : re := Cls [(0, 9); (11, 255)]%N.
Definition AnyChar : re := Cls [(0, 255)]%N.

Fixpoint nullable (r : re) : bool :=
  match r with
  | Void => false
  | Eps => true
  | Cls _ => false
  | Cat a b => nullable a && nullable b
  | Alt a b => nullable a || nullable b
  | Star _ => true
  end.

Fixpoint deriv (c : ascii) (r : re) : re :=
  match r with
  | Void => Void
  | Eps => Void
  | Cls cs => if in_cset c cs then Eps else Void
  | Cat a b => if nullable a then Alt (Cat (deriv c a) b) (deriv c b)
               else Cat (deriv c a) b
  | Alt a b => Alt (deriv c a) (deriv c b)
  | Star a => Cat (deriv c a) (Star a)
  end.

Fixpoint matches (r : re) (s : string) : bool :=
  match s with
  | EmptyString => nullable r
  | String c s' => matches (deriv c r) s'
  end.

(* relational semantics *)
Inductive lang : re -> string -> Prop :=
| L_eps : lang Eps EmptyString
| L_cls cs c : in_cset c cs = true -> lang (Cls cs) (String c EmptyString)
| L_cat a b s1 s2 : lang a s1 -> lang b s2 -> lang (Cat a b) (s1 ++ s2)
| L_altl a b s : lang a s -> lang (Alt a b) s
| L_altr a b s : lang b s -> lang (Alt a b) s
| L_star0 a : lang (Star a) EmptyString
| L_star1 a s1 s2 : lang a s1 -> lang (Star a) s2 -> lang (Star a) (s1 ++ s2).

Lemma cat_inv a b w :
  lang (Cat a b) w -> exists s1 s2, w = (s1 ++ s2)%string /\ lang a s1 /\ lang b s2.
Proof. intros H. inversion H; subst. eauto. Qed.

Lemma alt_inv a b w : lang (Alt a b) w -> lang a w \/ lang b w.
Proof. intros H. inversion H; subst; auto. Qed.

Lemma cls_inv cs w : lang (Cls cs) w -> exists c, w = String c EmptyString /\ in_cset c cs = true.
Proof. intros H. inversion H; subst. eauto. Qed.

Lemma app_nil_inv (s1 s2 : string) : (s1 ++ s2)%string = EmptyString -> s1 = EmptyString /\ s2 = EmptyString.
Proof. destruct s1; simpl; [auto | discriminate]. Qed.

Lemma nullable_spec r : nullable r = true <-> lang r EmptyString.
Proof.
  induction r as [| | cs | a IHa b IHb | a IHa b IHb | a IHa]; simpl.
  - split; [discriminate | intros H; inversion H].
  - split; [constructor | reflexivity].
  - split; [discriminate | intros H; apply cls_inv in H; destruct H as [c [H _]]; discriminate].
  - rewrite andb_true_iff, IHa, IHb. split.
    + intros [H1 H2]. change EmptyString with (EmptyString ++ EmptyString)%string.
      constructor; assumption.
    + intros H. apply cat_inv in H. destruct H as [s1 [s2 [E [H1 H2]]]].
      symmetry in E. apply app_nil_inv in E. destruct E; subst. split; assumption.
  - rewrite orb_true_iff, IHa, IHb. split.
    + intros [H|H]; [apply L_altl | apply L_altr]; assumption.
    + apply alt_inv.
  - split; [constructor | reflexivity].
Qed.

Lemma star_cons_inv a c s :
  lang (Star a) (String c s) ->
  exists s1 s2, s = (s1 ++ s2)%string /\ lang a (String c s1) /\ lang (Star a) s2.
Proof.
  intros H. remember (Star a) as r eqn:Er. remember (String c s) as w eqn:Ew.
  revert a c s Er Ew.
  induction H as [| | | | | |a' s1 s2 H1 IH1 H2 IH2]; intros a0 c0 s0 Er Ew; try discriminate.
  injection Er as ->.
  destruct s1 as [|c1 s1'].
  - simpl in Ew. apply (IH2 a0 c0 s0 eq_refl Ew).
  - simpl in Ew. injection Ew as -> <-. exists s1', s2. repeat split; assumption.
Qed.

Lemma cat_cons (a b : re) c s1 s2 : lang a (String c s1) -> lang b s2 -> lang (Cat a b) (String c (s1 ++ s2)).
Proof. intros H1 H2. change (String c (s1 ++ s2)) with ((String c s1) ++ s2)%string. constructor; assumption. Qed.

Lemma deriv_spec r : forall c s, lang (deriv c r) s <-> lang r (String c s).
Proof.
  induction r as [| | cs | a IHa b IHb | a IHa b IHb | a IHa]; intros c s; simpl.
  - split; intros H; inversion H.
  - split; intros H; inversion H.
  - destruct (in_cset c cs) eqn:E.
    + split.
      * intros H. inversion H; subst. constructor. exact E.
      * intros H. apply cls_inv in H. destruct H as [c' [Ew _]]. injection Ew as -> ->. constructor.
    + split.
      * intros H; inversion H.
      * intros H. apply cls_inv in H. destruct H as [c' [Ew Hc]]. injection Ew as -> ->. congruence.
  - destruct (nullable a) eqn:Na.
    + split.
      * intros H. apply alt_inv in H. destruct H as [H|H].
        -- apply cat_inv in H. destruct H as [s1 [s2 [-> [H1 H2]]]].
           apply cat_cons; [apply IHa|]; assumption.
        -- apply IHb in H. change (String c s) with (EmptyString ++ String c s)%string.
           constructor; [apply nullable_spec; exact Na | exact H].
      * intros H. apply cat_inv in H. destruct H as [s1 [s2 [Ew [H1 H2]]]].
        destruct s1 as [|c1 s1'].
        -- simpl in Ew. subst s2. apply L_altr. apply IHb. exact H2.
        -- simpl in Ew. injection Ew as -> ->. apply L_altl. constructor; [apply IHa|]; assumption.
    + split.
      * intros H. apply cat_inv in H. destruct H as [s1 [s2 [-> [H1 H2]]]].
        apply cat_cons; [apply IHa|]; assumption.
      * intros H. apply cat_inv in H. destruct H as [s1 [s2 [Ew [H1 H2]]]].
        destruct s1 as [|c1 s1'].
        -- apply nullable_spec in H1. congruence.
        -- simpl in Ew. injection Ew as -> ->. constructor; [apply IHa|]; assumption.
  - split.
    + intros H. apply alt_inv in H. destruct H as [H|H]; [apply L_altl; apply IHa | apply L_altr; apply IHb]; assumption.
    + intros H. apply alt_inv in H. destruct H as [H|H]; [apply L_altl; apply IHa | apply L_altr; apply IHb]; assumption.
  - split.
    + intros H. apply cat_inv in H. destruct H as [s1 [s2 [-> [H1 H2]]]].
      apply IHa in H1. change (String c (s1 ++ s2)) with ((String c s1) ++ s2)%string.
      apply L_star1; assumption.
    + intros H. apply star_cons_inv in H. destruct H as [s1 [s2 [-> [H1 H2]]]].
      constructor; [apply IHa|]; assumption.
Qed.

Theorem matches_spec r s : matches r s = true <-> lang r s.
Proof.
  revert r. induction s as [|c s IH]; intros r; simpl.
  - apply nullable_spec.
  - rewrite IH. apply deriv_spec.
Qed.

(* ---------- Python anchoring ---------- *)

Definition nl : ascii := Ascii.ascii_of_nat 10.

Fixpoint drop_last_nl (s : string) : option string :=
  match s with
  | EmptyString => None
  | String c EmptyString => if Ascii.eqb c nl then Some EmptyString else None
  | String c s' => match drop_last_nl s' with Some t => Some (String c t) | None => None end
  end.

(* re.match("^R$", s): '$' matches at the very end or just before one trailing newline *)
Definition py_fullmatch (r : re) (s : string) : bool :=
  matches r s || match drop_last_nl s with Some t => matches r t | None => false end.

(* re.search(R, s) for an unanchored R *)
Definition py_search (r : re) (s : string) : bool :=
  matches (Cat (Star AnyChar) (Cat r (Star AnyChar))) s.

Definition no_newline (s : string) : bool :=
  match drop_last_nl s with Some _ => false | None => true end.

Lemma py_fullmatch_no_nl r s : no_newline s = true -> py_fullmatch r s = matches r s.
Proof.
  unfold py_fullmatch, no_newline. destruct (drop_last_nl s); [discriminate|].
  intros _. apply orb_false_r.
Qed.

(* character-set normalisation used to compare generated and specification regexes *)
Fixpoint re_eqb (a b : re) : bool :=
  match a, b with
  | Void, Void => true
  | Eps, Eps => true
  | Cls x, Cls y =>
      (fix go (x y : cset) : bool :=
         match x, y with
         | [], [] => true
         | (a1, b1) :: x', (a2, b2) :: y' => (a1 =? a2)%N && (b1 =? b2)%N && go x' y'
         | _, _ => false
         end) x y
  | Cat a1 a2, Cat b1 b2 => re_eqb a1 b1 && re_eqb a2 b2
  | Alt a1 a2, Alt b1 b2 => re_eqb a1 b1 && re_eqb a2 b2
  | Star a1, Star b1 => re_eqb a1 b1
  | _, _ => false
  end.

Lemma re_eqb_eq a : forall b, re_eqb a b = true -> a = b.
Proof.
  induction a as [| | cs | a1 IH1 a2 IH2 | a1 IH1 a2 IH2 | a1 IH1]; intros b H;
    destruct b; simpl in H; try discriminate; try reflexivity.
  - f_equal. revert cs0 H. induction cs as [|[x1 y1] cs IH]; intros [|[x2 y2] cs0] H;
      try discriminate; try reflexivity.
    apply andb_true_iff in H. destruct H as [H H3]. apply andb_true_iff in H. destruct H as [H1 H2].
    apply N.eqb_eq in H1. apply N.eqb_eq in H2. subst. f_equal. apply IH. exact H3.
  - apply andb_true_iff in H. destruct H as [H1 H2]. f_equal; [apply IH1 | apply IH2]; assumption.
  - apply andb_true_iff in H. destruct H as [H1 H2]. f_equal; [apply IH1 | apply IH2]; assumption.
  - f_equal. apply IH1. exact H.
Qed.
